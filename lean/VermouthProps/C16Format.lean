import VermouthProofs.C16_Format
import Generated.C16Layout
/-!
# C16 — `TruncFormatter.format_field` in general

Theorems about `formatField` / `formatFieldG` (`VermouthModel/C16_Format.lean`): the transcription of
the method on the format-spec STRING (regular expression of the class, python's own `format()` for
the type letters `s`, `d`, `f`, and no type letter, then the truncation).

* `format_field_width`  — with the `t` flag and a non-zero width, EVERY result has exactly that
  width; `format_field_fails_iff` says exactly when there is no result;
* `trunc_side`          — which end survives: `<` the left, `>` the right, `^` the middle, `=`
  raises NotImplementedError; `trunc_side_default`: without explicit alignment strings keep their
  left end and numbers their right end;
* `no_t_is_python_format` — without the `t` flag the method is python's `format()`;
* `renderField_is_format_field` + `layout_specs_parse` — the `Spec`-level formatter of the main model
  is this general formatter on the specs of the extracted layouts, and those `Spec`s are what the
  regular expression makes of the format-spec strings found in the source.
-/
namespace C16

/-- **no_t_is_python_format** (parsed level): without the `t` flag `format_field` returns what
python's own `format(value, spec)` returns — same text, same exception. -/
theorem no_t_is_python_format_G (g : GSpec) (v : Val) : formatFieldG g false v = pyFormat g v := by
  unfold formatFieldG
  cases pyFormat g v with
  | error e => rfl
  | ok r => simp

/-- **no_t_is_python_format** (string level): a spec that does not end in `t` is handed to python's
`format()` unchanged and the result is returned as it is; an invalid spec is a ValueError. -/
theorem no_t_is_python_format (spec : List Char) (v : Val) (hnt : spec.getLast? ≠ some 't')
    (hin : spec.contains '_' = false ∧ spec.contains 'z' = false) :
    formatField spec v = match parseSpec spec with
      | none => .error .valueerror
      | some g => pyFormat g v := by
  unfold formatField splitT
  simp only [hnt, if_false, hin.1, hin.2, Bool.or_self, Bool.false_eq_true]
  cases parseSpec spec with
  | none => rfl
  | some g => exact no_t_is_python_format_G g v

/-- a spec that ends in `t`: the `t` is cut off, the rest goes to python's `format()`, then the
truncation applies -/
theorem with_t_format_field (spec : List Char) (v : Val) (ht : spec.getLast? = some 't')
    (hin : spec.dropLast.contains '_' = false ∧ spec.dropLast.contains 'z' = false) :
    formatField spec v = match parseSpec spec.dropLast with
      | none => .error .valueerror
      | some g => formatFieldG g true v := by
  unfold formatField splitT
  simp only [ht, if_true, hin.1, hin.2, Bool.or_self, Bool.false_eq_true, if_false]
  rfl

/-- the untruncated text when nothing has to be cut -/
theorem format_field_fits (g : GSpec) (t : Bool) (v : Val) (r : List Char) (hpy : pyFormat g v = .ok r)
    (h : t = false ∨ g.width = 0 ∨ r.length ≤ g.width) : formatFieldG g t v = .ok r := by
  unfold formatFieldG
  rw [hpy]
  rcases h with h | h | h <;> simp [h]

/-- **trunc_side.** When python's result `r` is longer than the width, `format_field` with the `t`
flag keeps: the LEFT `width` characters for alignment `<`, the RIGHT `width` characters for `>`,
the middle ones (dropping ⌊overflow/2⌋ on the left) for `^`; with `=` it raises
NotImplementedError.  (`effAlign` = explicit alignment, else by type: `trunc_side_default`.) -/
theorem trunc_side (g : GSpec) (v : Val) (r : List Char)
    (hal : ∀ a, g.align = some a → isAlignCh a = true)
    (hpy : pyFormat g v = .ok r) (hw : g.width ≠ 0) (hover : g.width < r.length) :
    formatFieldG g true v =
      if effAlign g v = '<' then .ok (r.take g.width)
      else if effAlign g v = '>' then .ok (r.drop (r.length - g.width))
      else if effAlign g v = '=' then .error .notimplemented
      else .ok ((r.drop ((r.length - g.width) / 2)).take g.width) := by
  unfold formatFieldG
  rw [hpy]
  have h1 : (g.width == 0) = false := by simpa using hw
  have h2 : ¬ r.length ≤ g.width := by omega
  simp only [Bool.not_true, h1, h2, decide_false, Bool.or_self, Bool.false_eq_true, if_false]
  have hv := isAlignCh_cases _ (effAlign_valid g v hal)
  have e1 : r.length - (r.length - g.width) = g.width := by omega
  rcases hv with hv | hv | hv | hv
  · simp [hv, e1]
  · simp [hv]
  · simp [hv]
  · simp only [hv]
    simp only [show ('^' : Char) ≠ '<' by decide, show ('^' : Char) ≠ '>' by decide,
      show ('^' : Char) ≠ '=' by decide, if_false, if_true]
    rw [List.drop_take]
    congr 2
    omega

/-- without an explicit alignment, a string that python could format keeps its LEFT end, a number
(integer or decimal, whatever the type letter) its RIGHT end -/
theorem trunc_side_default (g : GSpec) (v : Val) (r : List Char) (hpy : pyFormat g v = .ok r)
    (ha : g.align = none) :
    effAlign g v = match v with
      | .str _ => '<'
      | _ => '>' := by
  unfold effAlign effType
  rw [ha]
  unfold pyFormat at hpy
  split at hpy
  · cases hpy
  · cases v with
    | str s =>
      simp only [] at hpy
      split at hpy
      · rename_i hty
        rcases hty with hty | hty <;> simp [hty]
      · cases hpy
    | int i =>
      simp only [] at hpy
      split at hpy
      · rename_i hty
        rcases hty with hty | hty <;> simp [hty]
      · split at hpy
        · rename_i hf
          unfold isF at hf
          simp only [Bool.or_eq_true, decide_eq_true_eq] at hf
          rcases hf with hf | hf <;> simp [hf]
        · split at hpy <;> cases hpy
    | fix k =>
      simp only [] at hpy
      split at hpy
      · rename_i hf
        unfold isF at hf
        simp only [Bool.or_eq_true, decide_eq_true_eq] at hf
        rcases hf with hf | hf <;> simp [hf]
      · split at hpy <;> cases hpy
    | nan =>
      simp only [] at hpy
      split at hpy
      · rename_i hf
        unfold isF at hf
        simp only [Bool.or_eq_true, decide_eq_true_eq] at hf
        rcases hf with hf | hf <;> simp [hf]
      · split at hpy <;> cases hpy

/-- **format_field_width.** With the `t` flag and a non-zero width, whenever `format_field` returns
at all the text has EXACTLY that width — shorter values are padded by python, longer ones cut. -/
theorem format_field_width (g : GSpec) (v : Val) (r : List Char)
    (hal : ∀ a, g.align = some a → isAlignCh a = true) (hw : g.width ≠ 0)
    (h : formatFieldG g true v = .ok r) : r.length = g.width := by
  cases hpy : pyFormat g v with
  | error e => unfold formatFieldG at h; rw [hpy] at h; cases h
  | ok r0 =>
    have hle := pyFormat_width_le g v r0 hpy
    by_cases hover : g.width < r0.length
    · rw [trunc_side g v r0 hal hpy hw hover] at h
      split at h
      · cases h; simp; omega
      · split at h
        · cases h; simp; omega
        · split at h
          · cases h
          · cases h; simp; omega
    · rw [format_field_fits g true v r0 hpy (Or.inr (Or.inr (by omega)))] at h
      cases h; omega

/-- **when there is no result**: exactly when python's `format()` raises (same exception), or the
value overflows a field with explicit `=` alignment (NotImplementedError). -/
theorem format_field_fails_iff (g : GSpec) (v : Val) (e : FErr)
    (hal : ∀ a, g.align = some a → isAlignCh a = true) :
    formatFieldG g true v = .error e ↔
      (pyFormat g v = .error e ∨
       (e = .notimplemented ∧ ∃ r, pyFormat g v = .ok r ∧ g.width ≠ 0 ∧ g.width < r.length ∧ g.align = some '=')) := by
  cases hpy : pyFormat g v with
  | error e' =>
    unfold formatFieldG; rw [hpy]
    constructor
    · intro h; exact Or.inl h
    · intro h
      rcases h with h | ⟨_, r, hr, _⟩
      · exact h
      · cases hr
  | ok r0 =>
    by_cases hover : g.width ≠ 0 ∧ g.width < r0.length
    · rw [trunc_side g v r0 hal hpy hover.1 hover.2]
      constructor
      · intro h
        split at h
        · cases h
        · split at h
          · cases h
          · split at h
            · rename_i heq
              cases h
              refine Or.inr ⟨rfl, r0, rfl, hover.1, hover.2, ?_⟩
              unfold effAlign at heq
              split at heq
              · rename_i a ha; rw [ha, heq]
              · split at heq <;> exact absurd heq (by decide)
            · cases h
      · intro h
        rcases h with h | ⟨he, r, hr, _, _, ha⟩
        · cases h
        · have : effAlign g v = '=' := by unfold effAlign; rw [ha]
          simp [this, he]
    · have hfit : g.width = 0 ∨ r0.length ≤ g.width := by
        by_cases h0 : g.width = 0
        · exact Or.inl h0
        · exact Or.inr (by
            have : ¬ g.width < r0.length := fun h => hover ⟨h0, h⟩
            omega)
      rw [format_field_fits g true v r0 hpy (Or.inr hfit)]
      constructor
      · intro h; cases h
      · intro h
        rcases h with h | ⟨_, r, hr, hw, hlt, _⟩
        · cases h
        · cases hr
          exact absurd ⟨hw, hlt⟩ hover

/-- string level: a spec `…t` the regular expression understands, with a width: every result has
that width -/
theorem format_field_width_str (spec : List Char) (v : Val) (g : GSpec) (r : List Char)
    (ht : spec.getLast? = some 't') (hg : parseSpec spec.dropLast = some g) (hw : g.width ≠ 0)
    (h : formatField spec v = .ok r) : r.length = g.width := by
  unfold formatField splitT at h
  simp only [ht, if_true] at h
  split at h
  · cases h
  · rw [hg] at h
    exact format_field_width g v r (parseSpec_align_valid _ g hg) hw h

/-! ## the formatter of the layouts is this formatter -/

/-- **renderField_is_format_field.**  For every parsed spec that lies in the `Spec` fragment (no sign,
`#`, `0`, `,`; alignment absent, `<` or `>`; type `s`, `d` or `f`) and every value of the matching
kind, the `Spec`-level formatter `renderField` of the main model — on which all record, field and
file theorems are stated — returns exactly what the general `format_field` returns. -/
theorem renderField_is_format_field (g : GSpec) (t : Bool) (sp : Spec) (v : Val)
    (h : g.toSpec? t = some sp) (hk : kindMatches sp v = true) :
    formatFieldG g t v = .ok (renderField sp v) := by
  obtain ⟨hs, halt, hz, hc, hfill, hw, htr, hp, hal, hty⟩ := toSpec_facts g t sp h
  have hpf : g.pyFill = sp.fill := by
    unfold GSpec.pyFill; rw [hfill, hz]; cases g.fill <;> simp
  unfold renderField
  apply formatFieldG_of g t v sp (fieldBody sp v) _ hw htr
  · -- effective alignment
    unfold effAlign effType Spec.leftAligned
    rcases hal with ⟨ha, hsa⟩ | ⟨ha, hsa⟩ | ⟨ha, hsa⟩ <;> rw [ha, hsa]
    · rcases hty with ⟨hg, hst, _⟩ | ⟨hg, hst, _⟩ | ⟨hg, hst, _⟩ <;> simp [hg, hst]
    · simp
    · simp
  · -- python's format
    unfold pyFormat padded Spec.leftAligned
    simp only [hp, if_false]
    rcases hty with ⟨hg, hst, hpn⟩ | ⟨hg, hst, hpn⟩ | ⟨hg, hst, hpr⟩
    · cases v <;> simp only [kindMatches, hst] at hk <;> try cases hk
      rename_i s
      simp only [hg, hc, hs, halt, hpn, hpf, hw, fieldBody, hst]
      rcases hal with ⟨ha, hsa⟩ | ⟨ha, hsa⟩ | ⟨ha, hsa⟩ <;>
        simp [ha, hsa, GSpec.pyAlign, padNum_left, padNum_right]
    · cases v <;> simp only [kindMatches, hst] at hk <;> try cases hk
      rename_i i
      simp only [hg, hc, hpn, hpf, hw, fieldBody, hst, signStr_none g hs]
      rcases hal with ⟨ha, hsa⟩ | ⟨ha, hsa⟩ | ⟨ha, hsa⟩ <;>
        simp [ha, hsa, hz, GSpec.pyAlign, padNum_left_sign, padNum_right_sign, intRepr_eq]
    · cases v <;> simp only [kindMatches, hst] at hk <;> try cases hk
      · rename_i i
        simp only [hg, hc, hpf, hw, fieldBody, hst, signStr_none g hs, isF, halt]
        rw [fix_int]
        rcases hal with ⟨ha, hsa⟩ | ⟨ha, hsa⟩ | ⟨ha, hsa⟩ <;>
          simp [ha, hsa, hz, hpr, GSpec.pyAlign, padNum_left_sign, padNum_right_sign]
      · rename_i k
        simp only [hg, hc, hpf, hw, fieldBody, hst, signStr_none g hs, isF, halt]
        rcases hal with ⟨ha, hsa⟩ | ⟨ha, hsa⟩ | ⟨ha, hsa⟩ <;>
          simp [ha, hsa, hz, hpr, GSpec.pyAlign, padNum_left_sign, padNum_right_sign, fixRepr_eq]
      · simp only [hg, hc, hpf, hw, fieldBody, hst, signStr_none g hs, isF, halt]
        rcases hal with ⟨ha, hsa⟩ | ⟨ha, hsa⟩ | ⟨ha, hsa⟩ <;>
          simp [ha, hsa, hz, GSpec.pyAlign, padNum_left_sign, padNum_right_sign]

open Layout in
/-- the `Spec`s of a format string, in order -/
def fieldSpecs (fmt : List Seg) : List Spec :=
  fmt.filterMap fun
    | .fld _ sp => some sp
    | .lit _ => none

open Layout in
/-- **layout_specs_parse.**  The `Spec`s of the extracted layouts are what the regular expression of
`TruncFormatter` (`specOfString` = `splitT`, `parseSpec`, `toSpec?`) makes of the format-spec strings
that stand in the source (`Layout.*Raw`, re-extracted on every run): ATOM, TER, CONECT number, GRO
atom line for the default and for every tabulated precision. -/
theorem layout_specs_parse :
    atomRaw.map specOfString = (fieldSpecs atomFmt).map some ∧
    terRaw.map specOfString = (fieldSpecs terFmt).map some ∧
    specOfString conectRaw = some conectNum ∧
    groRaw.map specOfString = (fieldSpecs groFmt).map some ∧
    groFmtsRaw.map (fun e => (e.1, e.2.map specOfString)) =
      groFmts.map (fun e => (e.1, (fieldSpecs e.2).map some)) := by
  decide +kernel

/-! ## non-vacuity and the quirks, on concrete specs -/

deriving instance DecidableEq for Except

/-- `'{:>4dt}'`: parsed as right-aligned integer of width 4 -/
example : parseSpec ">4d".toList =
    some ⟨none, some '>', none, false, false, 4, false, none, some 'd'⟩ := by decide +kernel

/-- width and side: `-123456` through `05dt` keeps the right five characters, through `<5dt` the
left five (sign included), through `^4t` the middle, through `=5dt` raises -/
example : formatField "05dt".toList (.int (-123456)) = .ok "23456".toList ∧
    formatField "<5dt".toList (.int (-123456)) = .ok "-1234".toList ∧
    formatField "^4t".toList (.int 1234567) = .ok "2345".toList ∧
    formatField "=5dt".toList (.int (-123456)) = .error .notimplemented ∧
    formatField "=7dt".toList (.int 123456) = .ok " 123456".toList ∧
    formatField "4t".toList (.str "abcdef".toList) = .ok "abcd".toList ∧
    formatField "8.3ft".toList (.fix (-12345678)) = .ok "2345.678".toList ∧
    formatField "5tt".toList (.int 5) = .error .valueerror ∧
    formatField "t".toList (.int 123456) = .ok "123456".toList := by decide +kernel

/-- a LEFT-aligned numeric field can be cut down to a bare sign — which no reader can parse; the
layouts of the writers only have right-aligned numeric fields (`VermouthProps/C16Total.lean`) -/
example : formatField "<1dt".toList (.int (-5)) = .ok ['-'] := by decide +kernel

end C16
