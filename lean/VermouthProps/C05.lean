import VermouthProofs.C05_Order
import VermouthProofs.C05_Match
import VermouthProofs.C05_Table
import VermouthProofs.C05_Replace
/-!
# C05 — links are applied at exactly the places where they fit

Model: `VermouthModel/C05.lean` (transcription of `do_links.py` and of the parts of `molecule.py`
it uses).  The subgraph search (networkx `GraphMatcher`) is represented by its specification, the
shared verified reference `Iso.allIsosP`; the real matcher is tied to it by `harness/c05.py`.

Specifications used below (defined next to their proofs):
* `POrder`, `POrder.render`, `orderRel`   the documented orders and the relation table of the docstring
  of `match_order` written as a `match`                                   (`VermouthProofs/C05_Order.lean`)
* `LinkFits m l mp`                        the declarative "placement `mp` satisfies every condition of
  link `l` on molecule `m`"                                               (`VermouthProofs/C05_Match.lean`)
* `tableGet`, `tableKeys`, `addAll`, `JustifiedFrom`   the finite map an interaction list represents;
  "justified by a placement of some link"                                 (`VermouthProofs/C05_Table.lean`)

All theorems are unbounded (any molecule, any numbering, any link list); hypotheses are only
`Nodup` of node keys (true of every networkx graph) and `PatternsClosed` (patterns mention atoms of
the link; otherwise the code raises KeyError, which the model reproduces as `none`).
-/
namespace C05.Top
open Iso C05

/-! ### residue orders -/

/-- `match_order` equals the relation table of its docstring: all 16 combinations of `>`-runs,
`<`-runs, `*`-runs and integers, for runs of any length and all residue numbers. -/
theorem matchOrder_table (p1 : POrder) (r1 : Int) (p2 : POrder) (r2 : Int) (h1 : p1.wf) (h2 : p2.wf) :
    matchOrder p1.render r1 p2.render r2 = some (orderRel p1 r1 p2 r2) :=
  C05.matchOrder_table p1 r1 p2 r2 h1 h2

example : (POrder.gt 2).wf ∧ (POrder.num (-3)).wf := by simp [POrder.wf]
example : matchOrder (POrder.num 0).render 5 (POrder.gt 1).render 5 = some false := by decide
example : matchOrder (POrder.lt 1).render 5 (POrder.lt 2).render 3 = some true := by decide

/-- `_interpret_order` raises exactly on what is not a documented order (booleans, empty or mixed
strings, other characters, anything that is neither an integer nor a string). -/
theorem interpretOrder_rejects (o : Order) :
    interpretOrder o = none ↔ ¬ ∃ p : POrder, p.wf ∧ o = p.render :=
  C05.interpretOrder_rejects o

theorem interpretOrder_rejects_instances (b : Bool) (c d : Char) (rest : List Char) :
    interpretOrder (.bool b) = none ∧ interpretOrder (.str []) = none ∧ interpretOrder .bad = none
    ∧ (c ≠ d → interpretOrder (.str (c :: d :: rest)) = none)
    ∧ (c ≠ '>' ∧ c ≠ '<' ∧ c ≠ '*' → interpretOrder (.str (c :: rest)) = none) :=
  ⟨rfl, rfl, rfl, C05.interpretOrder_rejects_mixed c d rest, C05.interpretOrder_rejects_other c rest⟩

/-- `match_order` raises exactly when one of its orders is rejected. -/
theorem matchOrder_rejects (o1 o2 : Order) (r1 r2 : Int) :
    matchOrder o1 r1 o2 r2 = none ↔ (interpretOrder o1 = none ∨ interpretOrder o2 = none) :=
  C05.matchOrder_rejects o1 o2 r1 r2

/-- the relation does not depend on which residue is on the left (so the dictionary order in which
`match_link` forms the pairs is irrelevant) -/
theorem matchOrder_symm (o1 : Order) (r1 : Int) (o2 : Order) (r2 : Int) :
    matchOrder o1 r1 o2 r2 = matchOrder o2 r2 o1 r1 :=
  C05.matchOrder_symm o1 r1 o2 r2

/-- two atoms with the same (valid) order satisfy the relation exactly when they are in one residue -/
theorem matchOrder_same (o : Order) (r1 r2 : Int) (h : (interpretOrder o).isSome) :
    matchOrder o r1 o r2 = some (decide (r1 = r2)) :=
  C05.matchOrder_same o r1 r2 h

/-! ### where a link fits -/

/-- The placements yielded by `match_link` are exactly the placements satisfying the declarative
conditions of the link: injective on the link's atoms, attribute conditions (choices, negations,
the `modifications` rule), required bonds present and absent bonds absent, non-edges, patterns,
molecule-level conditions, one residue per order, order relations. -/
theorem matchLink_exact (m : Mol) (l : Link) (hk : l.keys.Nodup) (hp : PatternsClosed l) (mp : Map) :
    mp ∈ matchLink m l ↔ LinkFits m l mp :=
  C05.matchLink_exact m l hk hp mp

/-- each of them once -/
theorem matchLink_nodup (m : Mol) (l : Link) (hm : m.keys.Nodup) : (matchLink m l).Nodup :=
  C05.matchLink_nodup m l hm

/-- when nothing raises, `list(match_link(..))` is that list -/
theorem matchLinkE_eq (m : Mol) (l : Link) (ps : List Map) (h : matchLinkE m l = some ps) :
    ps = matchLink m l :=
  C05.matchLinkE_eq m l ps h

/-- The placements a link is applied on are exactly the fitting ones, whatever enumeration order
the matcher reports. -/
theorem applied_iff_fits (m : Mol) (l : Link) (hk : l.keys.Nodup) (hp : PatternsClosed l)
    (given : List Map) (mp : Map) :
    mp ∈ orderAs given (matchLink m l) ↔ LinkFits m l mp :=
  ⟨fun h => (C05.matchLink_exact m l hk hp mp).1 (orderAs_subset _ _ _ h),
   fun h => orderAs_complete _ _ _ ((C05.matchLink_exact m l hk hp mp).2 h)⟩

example : matchLink exMol exLink = [[(0, 10), (1, 11)], [(0, 11), (1, 12)]] := by decide
example : exLink.keys.Nodup ∧ PatternsClosed exLink := by
  refine ⟨by decide, ?_⟩
  intro p hp; simp [exLink] at hp

/-! ### the interaction table -/

/-- The interaction list represents a finite map keyed by (type, atoms, version):
add-or-replace keeps the identities distinct, sets the value of that identity and of no other, and
keeps every identity at the position of its first insertion (a new one goes to the end). -/
theorem addOrReplace_refines_map (t : Table) (x : String × Inter) (h : (tableKeys t).Nodup) :
    (tableKeys (addOrReplace t x)).Nodup
    ∧ (∀ k, tableGet (addOrReplace t x) k = if k = keyOf x then some x.2 else tableGet t k)
    ∧ tableKeys (addOrReplace t x) = (if keyOf x ∈ tableKeys t then tableKeys t else tableKeys t ++ [keyOf x]) :=
  C05.addOrReplace_refines_map t x h

/-- Later additions override earlier ones for the same atoms and version; untouched identities keep
their value. -/
theorem later_overrides (t : Table) (adds : List (String × Inter)) (k : Key) :
    tableGet (addAll t adds) k =
      match adds.reverse.find? (fun x => keyOf x == k) with
      | some x => some x.2
      | none => tableGet t k :=
  C05.later_overrides t adds k

/-- after a placement was applied, the value of an identity is the one of the LAST interaction of
the link with that identity (or what the table held after the link's removals) -/
theorem applyPlacement_present (l : Link) (s : Mol × List Int) (mp : Map) (a : String × Inter)
    (ha : a ∈ l.inters) : keyOf (a.1, buildInter mp a.2) ∈ tableKeys (applyPlacement l s mp).1.inters :=
  C05.applyPlacement_present l s mp a ha

/-- A removal that finds a matching interaction deletes exactly one matching entry (the first);
everything else stays. -/
theorem removed_gone (na : Int → Attrs) (t : Table) (ty : String) (d : LDel) (hn : (tableKeys t).Nodup)
    (e : String × Inter) (he : e ∈ t) (hm : e.1 = ty ∧ interMatch na e.2 d = true) :
    ∃ e0 ∈ t, e0.1 = ty ∧ interMatch na e0.2 d = true ∧ e0 ∉ removeMatching na t ty d
      ∧ (removeMatching na t ty d).length + 1 = t.length
      ∧ (∀ e' ∈ t, e' ≠ e0 → e' ∈ removeMatching na t ty d) :=
  C05.removed_gone na t ty d hn e he hm

/-- if exactly one entry matches the template it is the one that disappears -/
theorem removed_gone_unique (na : Int → Attrs) (t : Table) (ty : String) (d : LDel) (hn : (tableKeys t).Nodup)
    (e : String × Inter) (he : e ∈ t) (hm : e.1 = ty ∧ interMatch na e.2 d = true)
    (hu : ∀ e' ∈ t, e'.1 = ty ∧ interMatch na e'.2 d = true → e' = e) :
    removeMatching na t ty d = t.erase e ∧ e ∉ removeMatching na t ty d :=
  C05.removed_gone_unique na t ty d hn e he hm hu

/-- a removal that matches nothing changes nothing -/
theorem removeMatching_none (na : Int → Attrs) (t : Table) (ty : String) (d : LDel)
    (h : ∀ e ∈ t, ¬ (e.1 = ty ∧ interMatch na e.2 d = true)) : removeMatching na t ty d = t :=
  C05.removeMatching_none na t ty d h

/-- Nothing unjustified: every interaction of the molecule after `DoLinks` was in the input or is the
image of an interaction of some link under a placement that `match_link` yields on the molecule as
it is when that link is applied. -/
theorem nothing_unjustified (m : Mol) (links : List Link) (given : List (List Map)) (e : String × Inter)
    (h : e ∈ (applyLinks m links given).inters) : e ∈ m.inters ∨ JustifiedFrom (m, []) links given e :=
  C05.nothing_unjustified m links given e h

/-! ### attribute replacement and node removal -/

/-- `replace` has taken effect: after the update node `k` carries, for every key of the `replace`
dictionary, the (last) value given there and its old value for every other key; no other node changes. -/
theorem replace_takes_effect (m : Mol) (hk : m.keys.Nodup) (k : Int) (new : Attrs) (k' : Int) (key : String) :
    ((m.setAttrs k new).attrsOf k' = if k' = k ∧ k ∈ m.keys then aupdate (m.attrsOf k) new else m.attrsOf k')
    ∧ (aupdate (m.attrsOf k) new).lookup key =
        (match new.reverse.lookup key with
         | some v => some v
         | none => (m.attrsOf k).lookup key) :=
  ⟨setAttrs_attrsOf m hk k new k', lookup_aupdate _ _ _⟩

/-- a node is put on the removal list exactly by a `replace` with `atomname: null` of a placed link node -/
theorem removal_marked (mp : Map) (ns : List LNode) (s : Mol × List Int) (x : Int) :
    x ∈ (applyReplace mp ns s).2 ↔
      x ∈ s.2 ∨ ∃ n ∈ ns, ∃ r, n.replace = some r ∧ removesNode r = true ∧ x = Map.toFun mp n.key := by
  constructor
  · exact applyReplace_marks_only mp ns s x
  · rintro (h | ⟨n, hn, r, h1, h2, rfl⟩)
    · induction ns generalizing s with
      | nil => exact h
      | cons a rest ih =>
        obtain ⟨m, rm⟩ := s
        simp only [applyReplace]
        split
        · exact ih _ h
        · split
          · apply ih; simp at h ⊢; exact Or.inl h
          · exact ih _ h
    · exact applyReplace_marks mp ns s n r hn h1 h2

/-- after a link was applied every node on the removal list is gone, with its bonds and with every
interaction that mentions it -/
theorem removed_nodes_gone (l : Link) (s : Mol × List Int) (ps : List Map) (k : Int)
    (hk : k ∈ (applyLinkWith l s ps).2) :
    k ∉ (applyLinkWith l s ps).1.keys
    ∧ (∀ e ∈ (applyLinkWith l s ps).1.edges, e.1 ≠ k ∧ e.2 ≠ k)
    ∧ (∀ e ∈ (applyLinkWith l s ps).1.inters, k ∉ e.2.atoms) :=
  C05.removed_nodes_gone l s ps k hk

/-- the run with exceptions agrees with the total one whenever nothing raises -/
theorem applyLinksE_eq (m : Mol) (links : List Link) (given : List (List Map)) (r : Mol)
    (h : applyLinksE m links given = some r) : r = applyLinks m links given :=
  C05.applyLinksE_eq m links given r h

end C05.Top
