import VermouthProofs.C09_Pipeline
import VermouthProps.C09
import VermouthProps.C01_Events
/-!
# C09 — "weighted by MAPPING weight": the position model composed with the mapping model

`VermouthModel/C09_Pipeline.lean` composes the C01 model of `do_mapping` (which PRODUCES the table
`out_to_mol`, hence `'graph'` and `'mapping_weights'` of every particle) with the C09 model of
`do_average_bead` (which CONSUMES them).  The theorems below are about that composition, for every
input molecule geometry (`geom`: keys, positions, numeric attributes, distinct keys), every list of
block matches `ps` and modification matches `qs`, every centre-weight configuration, with no bound on
sizes.

* `logFrom {} (eventsOf ps qs)` is the list of assignments `out_to_mol[particle][atom] = weight` the
  run makes, in execution order; `log_entry_source` says where each comes from: a weight the match of a
  BLOCK mapping declares for that atom (`match_weights_are_definition`: the table the mapping definition has for the
  `block_from` node the atom is matched with), under the key shift of `merge_molecule`; or weight 0 from
  every atom of the match to a particle nothing maps to; or a weight a MODIFICATION mapping declares,
  its node replaced by the particle it was created as / laid over.
* `declaredWeight log a k` = the last assignment to `(a, k)` (`d[k][a] = w` overwrites);
  `declaredTerms` / `declaredPos` = the weighted mean computed from the log and the input coordinates
  only — no particle attribute enters.
-/
namespace C09
open C01 (St Placement ModPlacement Ev applyEv eventsOf lastW addEntriesRev)

/-! ## the composition is the C01 run followed by the C09 run -/

/-- `mapState` is the state `C01.assembleAll` finishes: the composed model runs the same loop -/
theorem mapState_assembleAll (m : C01.MolIn) (ps : List Placement) (qs : List ModPlacement) :
    C01.assembleAll m ps qs = (mapState ps qs).map (C01.finish m) := by
  unfold C01.assembleAll mapState
  split
  · rfl
  · simp only
    split
    · rename_i heq; rw [heq]; rfl
    · rename_i heq; rw [heq]; rfl

/-- … and for block matches alone it is `C01.assemble`'s `placeAll (order ps)` -/
theorem mapState_ok_blocks (ps : List Placement) (st : St) (h : mapState ps [] = .ok st) :
    st = C01.placeAll (C01.order ps) ∧ st.err = none := by
  unfold mapState at h
  split at h
  · cases h
  · simp only at h
    have e : C01.orderM ([] : List ModPlacement) = [] := rfl
    rw [e, List.length_nil, Nat.add_zero, C01.runAll_no_mods _ _ _ (Nat.le_refl _)] at h
    split at h
    · cases h
    · rename_i he
      cases h
      exact ⟨rfl, he⟩

theorem mapState_ok (ps : List Placement) (qs : List ModPlacement) (st : St) (h : mapState ps qs = .ok st) :
    st = (eventsOf ps qs).foldl applyEv {} ∧ st.err = none := by
  unfold mapState at h
  split at h
  · cases h
  · simp only at h
    split at h
    · cases h
    · rename_i he
      cases h
      exact ⟨C01.runAll_eq_fold _ _ _ _, he⟩

/-- the particle's `'graph'` and `'mapping_weights'` in the composition are those of the particle of
C01's result (`C01.beadOf`, what the C01 check compares with the real `do_mapping`) -/
theorem bead_is_C01_bead (geom : List (Atom Rat)) (m : C01.MolIn) (st : St) (n : Int × C12.Attrs)
    (ws : List (Int × Rat)) (h : st.outToMol.lookup n.1 = some ws) :
    beadOfParticle geom st.outToMol n.1
      = ⟨some (subgraphOf geom (C01.beadOf m st n).atoms), some (C01.beadOf m st n).weights⟩ := by
  obtain ⟨_, h1, h2, _⟩ := C01.stash_old_resid m st n ws h
  unfold beadOfParticle
  rw [h, h1, h2]

/-! ## the position comes from the mapping definition -/

/-- core step: whatever run produced the table, if `out_to_mol` is the log applied to the empty table
then the position of every particle is the weighted mean of the declared constituents -/
theorem particlePos_of_log (geom : List (Atom Rat)) (hg : (geom.map (·.key)).Nodup) (cw : Option String)
    (st : St) (log : List (Int × Int × Rat)) (h : st.outToMol = addEntriesRev [] log) (k : Int) :
    particlePos geom cw st k = declaredPos geom cw log k := by
  unfold particlePos beadOfParticle declaredPos
  have hs := lookup_rev_log_isSome log k
  rw [h]
  cases hl : (addEntriesRev [] log).lookup k with
  | none =>
    rw [hl] at hs
    simp only [Option.isSome_none] at hs
    simp [← hs]
  | some ws =>
    rw [hl] at hs
    simp only [Option.isSome_some] at hs
    simp only [← hs, if_true, Option.map_some, Option.some.injEq]
    have hmem := lookup_mem _ _ _ hl
    have hnd : ((ws.map Prod.fst)).Nodup := (rev_log_innerOK log _ hmem).1
    have hperm := subgraphOf_perm geom hg (ws.map Prod.fst) hnd
    have hread : ∀ a : Int, ws.lookup a = declaredWeight log a k := by
      intro a
      have := get2_rev_log log k a
      unfold C01.get2 at this
      rw [hl] at this
      exact this
    have e1 : beadPosQ cw (subgraphOf geom (ws.map Prod.fst)) (some ws)
        = mean epsQ (terms cw ws (geom.filter (fun a => (ws.map Prod.fst).contains a.key))) :=
      mean_perm (K := ℚ) epsQ (terms_perm (K := ℚ) cw ws hperm)
    rw [e1, terms_filter_eq]
    unfold declaredTerms
    congr 2
    funext a
    rw [hread]

/-- **`position_from_mapping_definition`**: run `DoMapping` then `DoAverageBead` (any `weight`
argument, any `center_weight` variable of the target force field, with or without
`ignore_missing_graphs`) on any molecule, any block matches and any modification matches.  Whenever
both succeed, the position of EVERY particle is the weighted mean (`C09.mean`, NaN below the
tolerance) of the positions of exactly those atoms of the input molecule that an assignment of the run
names for that particle and that have coordinates, each weighted by the LAST weight assigned to the
pair (`declaredWeight`) times its centre weight (`centerFactor`: the attribute chosen by
`selectWeight`, 1 when none is configured); a particle no assignment names is left untouched.
`log_entry_source`, `match_weights_are_definition` and `mod_match_weights_are_definition` reduce the
assignments to the mapping definitions. -/
theorem position_from_mapping_definition (geom : List (Atom Rat)) (hg : (geom.map (·.key)).Nodup)
    (self : WeightArg) (ffVar : Option String) (ign : Bool) (ps : List Placement) (qs : List ModPlacement)
    (keys : List Int) (l : List (Option (Option (V3 Rat))))
    (h : pipeline geom self ffVar ign ps qs = .averaged keys (.ok l)) :
    l = keys.map (declaredPos geom (selectWeight self ffVar) (logFrom {} (eventsOf ps qs))) := by
  unfold pipeline at h
  cases hm : mapState ps qs with
  | error e => rw [hm] at h; cases h
  | ok st =>
    rw [hm] at h
    simp only [PipeOutcome.averaged.injEq] at h
    obtain ⟨rfl, h2⟩ := h
    obtain ⟨rfl, hok⟩ := mapState_ok ps qs st hm
    have htab := (foldEv_tables (eventsOf ps qs) {} hok).2
    unfold runMoleculeQ runMolecule doAverageBead at h2
    split at h2
    · cases h2
    · split at h2
      · cases h2
      · simp only [Outcome.ok.injEq] at h2
        rw [← h2]
        unfold particleBeads C12.Mol.keys
        rw [List.map_map, List.map_map]
        apply List.map_congr_left
        intro n _
        exact particlePos_of_log geom hg _ _ _ htab n.1

/-- the same for the block-only run of `C01.assemble`, with C01's closed form `logSpec` (offsets
explicit) as the log -/
theorem position_from_mapping_definition_blocks (geom : List (Atom Rat)) (hg : (geom.map (·.key)).Nodup)
    (cw : Option String) (m : C01.MolIn) (ps : List Placement) (r : C01.Result) (h : C01.assemble m ps = .ok r)
    (k : Int) :
    particlePos geom cw (C01.placeAll (C01.order ps)) k
      = declaredPos geom cw (C01.logSpec C01.Off.zero (C01.order ps)) k := by
  obtain ⟨hok, _⟩ := C01.assemble_ok m ps r h
  exact particlePos_of_log geom hg cw _ _ (C01.placeAll_spec _ hok).2.2.1 k

/-- **where the assignments come from** (run with block and modification matches): an assignment
`(a, k, w)` is in the log iff some match of the schedule, applied in the state `s` the earlier ones
left, makes it: a block match whose weight table for atom `a` has `(blk, w)` and `blk` is renumbered to
`k` (offset = highest particle key so far), or `k` is a particle of that block nothing maps to, `a` any
atom of the match and `w = 0`; or a modification match whose table for `a` has `(b, w)` and its node
`b` became / was laid over particle `k`. -/
theorem log_entry_source (es : List Ev) (hok : (es.foldl applyEv {}).err = none) (a k : Int) (w : Rat) :
    (a, k, w) ∈ logFrom {} es ↔
      ∃ pre e post, es = pre ++ e :: post ∧
        match e with
        | .blk p =>
            (∃ ws blk, (a, ws) ∈ p.molToBlock ∧ (blk, w) ∈ ws
              ∧ C12.corrOf p.block.keys (blkOffset (pre.foldl applyEv {})) blk = some k)
            ∨ (k ∈ C01.spawnedOut p.block.keys (blkOffset (pre.foldl applyEv {})) p.molToBlock
                ∧ a ∈ p.atoms ∧ w = 0)
        | .mod q =>
            ∃ out1 m2o, C01.placeModNodes (pre.foldl applyEv {}) q q.nodes (pre.foldl applyEv {}).out [] = some (out1, m2o)
              ∧ ∃ ws b, (a, ws) ∈ q.molToMod ∧ (b, w) ∈ ws ∧ m2o.lookup b = some k := by
  rw [mem_logFrom]
  apply exists_congr; intro pre
  apply exists_congr; intro e
  apply exists_congr; intro post
  apply and_congr_right
  intro hs
  have hok' : ((applyEv (pre.foldl applyEv {}) e)).err = none := by
    rw [hs, List.foldl_append, List.foldl_cons] at hok
    exact foldEv_err_none post _ hok
  have hpre : (pre.foldl applyEv {}).err = none := by
    cases hh : (pre.foldl applyEv {}).err with
    | none => rfl
    | some x => rw [C01.applyEv_err _ e x hh, hh] at hok'; cases hok'
  cases e with
  | blk p => exact mem_blkEntries _ p a k w (applyBlock_tables _ p hpre hok').2.2
  | mod q => exact mem_modEntriesOf _ q hpre hok' a k w

/-- `Mapping._graph_map`, block mappings: the weight table a match gives atom `a` IS the table the
mapping definition (`MapSpec.weights` = `Mapping.mapping`) has for the `block_from` node `a` is matched
with — together with `log_entry_source` this reduces every weight of a run to the definition -/
theorem match_weights_are_definition (M : C01.MapSpec) (mt : List (Int × Int)) (p : Placement)
    (h : C01.graphMap M mt = some p) (a : Int) (ws : List (Int × Rat)) :
    (a, ws) ∈ p.molToBlock ↔ ∃ f, (a, f) ∈ mt ∧ M.weights.lookup f = some ws :=
  mem_graphMap M mt p h a ws

/-- the same for modification mappings -/
theorem mod_match_weights_are_definition (M : C01.ModSpec) (mt : List (Int × Int)) (q : ModPlacement)
    (h : C01.graphMapMod M mt = some q) (a : Int) (ws : List (Int × Rat)) :
    (a, ws) ∈ q.molToMod ↔ ∃ f, (a, f) ∈ mt ∧ M.weights.lookup f = some ws :=
  mem_graphMapMod M mt q h a ws

/-! ## particles nothing maps to; shared atoms; independence -/

/-- all declared weights of a particle are 0 (whatever the coordinates and centre weights): NaN -/
theorem zero_weights_undefined (geom : List (Atom Rat)) (cw : Option String) (log : List (Int × Int × Rat))
    (k : Int) (hsome : log.any (fun e => e.2.1 == k) = true) (hall : ∀ e ∈ log, e.2.1 = k → e.2.2 = 0) :
    declaredPos geom cw log k = some none := by
  unfold declaredPos
  rw [if_pos hsome]
  congr 1
  have hz : wsum (declaredTerms geom cw log k) = 0 := by
    apply wsum_zero_of_weights
    intro t ht
    unfold declaredTerms at ht
    obtain ⟨a, _, hfa⟩ := List.mem_filterMap.1 ht
    cases hw : declaredWeight log a.key k with
    | none => simp [hw] at hfa
    | some w =>
      cases hp : a.pos with
      | none => simp [hw, hp] at hfa
      | some p =>
        simp only [hw, hp, Option.some.injEq] at hfa
        subst hfa
        rcases C01.lastW_some a.key k log none w hw with hm | hm
        · have := hall _ hm rfl
          simp only at this
          subst this
          exact Rat.zero_mul _
        · cases hm
  unfold mean
  rw [hz]
  have hsm : small epsQ (0 : Rat) = true := by decide +kernel
  rw [if_pos hsm]

/-- **`spawned_particle_undefined`** (none-to-one particles, e.g. charge dummies / virtual sites the
block adds without any atom mapping to them): in a run of block matches the code gives such a particle
every atom of its match with weight 0, nothing else ever assigns to it, and its position is undefined
(NaN) for every geometry and every centre weight. -/
theorem spawned_particle_undefined (geom : List (Atom Rat)) (hg : (geom.map (·.key)).Nodup)
    (cw : Option String) (m : C01.MolIn) (ps : List Placement) (r : C01.Result) (h : C01.assemble m ps = .ok r)
    (k : Int) (hk : k ∈ C01.spawnedSpec C01.Off.zero (C01.order ps)) :
    particlePos geom cw (C01.placeAll (C01.order ps)) k = some none := by
  rw [position_from_mapping_definition_blocks geom hg cw m ps r h k]
  obtain ⟨hok, _⟩ := C01.assemble_ok m ps r h
  obtain ⟨pre, p, post, hsplit, hsp⟩ := (C01.mem_spawnedSpec _ _ _).1 hk
  have hws := C01.weightEntries_isSome ps pre p post hsplit hok
  have hpin : p ∈ ps := (C01.order_perm' ps).subset (by rw [hsplit]; simp)
  -- the match has at least one atom (else `assemble` raises ValueError)
  have hne : p.atoms ≠ [] := by
    unfold C01.assemble at h
    split at h
    · cases h
    · rename_i hany
      intro hnil
      apply hany
      simp only [List.any_eq_true]
      exact ⟨p, hpin, by simp [hnil]⟩
  obtain ⟨a, ha⟩ := List.exists_mem_of_ne_nil _ hne
  have hent : (a, k, (0 : Rat)) ∈ C01.stepEntries (C01.Off.zero.after pre) p :=
    (C01.mem_stepEntries _ p a k 0 hws).2 (Or.inr ⟨hsp, ha, rfl⟩)
  apply zero_weights_undefined
  · simp only [List.any_eq_true]
    exact ⟨(a, k, 0), (C01.mem_logSpec _ _ _).2 ⟨pre, p, post, hsplit, hent⟩, by simp⟩
  · intro e he hek
    obtain ⟨pre2, p2, post2, hs2, hm2⟩ := (C01.mem_logSpec _ _ _).1 he
    have hr1 := (C01.stepEntries_bead_mem _ p _ hent).1
    have hr2 := (C01.stepEntries_bead_mem _ p2 e hm2).1
    rw [hek] at hr2
    have hlen : pre.length = pre2.length :=
      C01.inPlacement_unique (C01.order ps) _ _ k ⟨pre, p, post, hsplit, rfl, hr1⟩ ⟨pre2, p2, post2, hs2, rfl, hr2⟩
    obtain ⟨rfl, rfl, rfl⟩ := C01.split_eq _ _ _ _ _ _ _ hsplit hs2 hlen
    obtain ⟨ea, ek, ew⟩ := e
    simp only at hek ⊢
    subst hek
    rcases (C01.mem_stepEntries _ p ea ek ew hws).1 hm2 with ⟨ws, blk, n1, n2, n3⟩ | ⟨_, _, hz⟩
    · -- mapped to AND spawned: impossible
      exfalso
      unfold C01.stepSpawned C01.spawnedOut at hsp
      obtain ⟨s, hs1, hs2'⟩ := List.mem_filterMap.1 hsp
      have hsb : s = blk := C01.corrOf_inj _ _ _ _ _ hs2' n3
      subst hsb
      unfold C01.spawnedBlock at hs1
      simp only [List.mem_filter, Bool.not_eq_true', List.any_eq_false, List.any_eq_true, not_exists, not_and] at hs1
      have := hs1.2 (ea, ws) n1 (s, ew) n2
      simp at this
    · exact hz

/-- the position of a particle depends on the assignments that name THAT particle only: what an atom
weighs in another particle is irrelevant -/
theorem other_particles_irrelevant (geom : List (Atom Rat)) (cw : Option String) (log : List (Int × Int × Rat))
    (k : Int) : declaredPos geom cw log k = declaredPos geom cw (log.filter (fun e => e.2.1 == k)) k := by
  unfold declaredPos declaredTerms declaredWeight
  have e1 : (log.filter (fun e => e.2.1 == k)).any (fun e => e.2.1 == k) = log.any (fun e => e.2.1 == k) := by
    rw [Bool.eq_iff_iff]
    simp only [List.any_eq_true, List.mem_filter]
    constructor
    · rintro ⟨e, ⟨he, _⟩, h⟩; exact ⟨e, he, h⟩
    · rintro ⟨e, he, h⟩; exact ⟨e, ⟨he, h⟩, h⟩
  rw [e1]
  simp only [lastW_filter]

/-- **`shared_atom_counts_in_both`**: an atom with coordinates that the run assigns to two particles
is a term of BOTH weighted means, in each with the weight declared for that particle (times its own
centre weight) and with its one position. -/
theorem shared_atom_counts_in_both (geom : List (Atom Rat)) (cw : Option String) (log : List (Int × Int × Rat))
    (a : Atom Rat) (ha : a ∈ geom) (p : V3 Rat) (hp : a.pos = some p) (k1 k2 : Int) (w1 w2 : Rat)
    (h1 : declaredWeight log a.key k1 = some w1) (h2 : declaredWeight log a.key k2 = some w2) :
    (w1 * centerFactor cw a, p) ∈ declaredTerms geom cw log k1
    ∧ (w2 * centerFactor cw a, p) ∈ declaredTerms geom cw log k2 := by
  unfold declaredTerms
  constructor
  · exact List.mem_filterMap.2 ⟨a, ha, by simp [h1, hp]⟩
  · exact List.mem_filterMap.2 ⟨a, ha, by simp [h2, hp]⟩

/-- … and an atom is a term at most once per particle, however often it was assigned to it (block
match and modification match, overlapping matches): `declaredTerms` has one entry per atom of the
input molecule at most -/
theorem assigned_twice_counts_once (geom : List (Atom Rat)) (cw : Option String) (log : List (Int × Int × Rat))
    (k : Int) : (declaredTerms geom cw log k).length ≤ geom.length :=
  List.length_filterMap_le _ _

/-- constituents without coordinates never contribute, whatever the mapping declares for them -/
theorem declared_unpositioned_ignored (geom : List (Atom Rat)) (cw : Option String) (log : List (Int × Int × Rat))
    (k : Int) : declaredTerms geom cw log k = declaredTerms (geom.filter positioned) cw log k := by
  unfold declaredTerms
  induction geom with
  | nil => rfl
  | cons a r ih =>
    cases hp : a.pos with
    | none =>
      rw [List.filter_cons_of_neg (by simp [positioned, hp]), List.filterMap_cons, ← ih]
      cases declaredWeight log a.key k <;> simp [hp]
    | some p =>
      rw [List.filter_cons_of_pos (by simp [positioned, hp]), List.filterMap_cons, List.filterMap_cons, ih]

/-! ## the declared mean in closed form; bounding box from the definition -/

/-- the position, when defined, is `Σ w·x / Σ w` over the declared terms and `Σ w ≠ 0` -/
theorem declared_weighted_mean (geom : List (Atom Rat)) (cw : Option String) (log : List (Int × Int × Rat))
    (k : Int) (p : V3 ℚ) (h : declaredPos geom cw log k = some (some p)) :
    wsum (declaredTerms geom cw log k) ≠ 0
    ∧ p = ⟨wcsum V3.x (declaredTerms geom cw log k) / wsum (declaredTerms geom cw log k),
           wcsum V3.y (declaredTerms geom cw log k) / wsum (declaredTerms geom cw log k),
           wcsum V3.z (declaredTerms geom cw log k) / wsum (declaredTerms geom cw log k)⟩ := by
  unfold declaredPos at h
  split at h
  · simp only [Option.some.injEq] at h
    have hm : mean (K := ℚ) epsQ (declaredTerms geom cw log k) = some p := h
    exact ⟨wsum_ne_zero_of_mean (K := ℚ) epsQ_pos hm, ((mean_eq_some_iff (K := ℚ) _ _ _).1 hm).2⟩
  · cases h

/-- **bounding box from the mapping definition**: when every weight the run declares for the particle
and every centre weight of its declared, positioned atoms is non-negative, the particle lies in the
bounding box of those atoms -/
theorem declared_in_bounding_box (geom : List (Atom Rat)) (cw : Option String) (log : List (Int × Int × Rat))
    (k : Int) (p : V3 ℚ) (h : declaredPos geom cw log k = some (some p))
    (hw : ∀ e ∈ log, e.2.1 = k → (0 : ℚ) ≤ e.2.2)
    (hc : ∀ a ∈ geom, (0 : ℚ) ≤ centerFactor cw a) (lo hi : V3 ℚ)
    (hb : ∀ a ∈ geom, (declaredWeight log a.key k).isSome = true → ∀ q, a.pos = some q →
      lo.x ≤ q.x ∧ q.x ≤ hi.x ∧ lo.y ≤ q.y ∧ q.y ≤ hi.y ∧ lo.z ≤ q.z ∧ q.z ≤ hi.z) :
    lo.x ≤ p.x ∧ p.x ≤ hi.x ∧ lo.y ≤ p.y ∧ p.y ≤ hi.y ∧ lo.z ≤ p.z ∧ p.z ≤ hi.z := by
  unfold declaredPos at h
  split at h
  · simp only [Option.some.injEq] at h
    have hm : mean (K := ℚ) epsQ (declaredTerms geom cw log k) = some p := h
    have hs := wsum_ne_zero_of_mean (K := ℚ) epsQ_pos hm
    have hterm : ∀ t ∈ declaredTerms geom cw log k, (0 : ℚ) ≤ t.1 ∧
        lo.x ≤ t.2.x ∧ t.2.x ≤ hi.x ∧ lo.y ≤ t.2.y ∧ t.2.y ≤ hi.y ∧ lo.z ≤ t.2.z ∧ t.2.z ≤ hi.z := by
      intro t ht
      unfold declaredTerms at ht
      obtain ⟨a, ha, hfa⟩ := List.mem_filterMap.1 ht
      cases hwa : declaredWeight log a.key k with
      | none => simp [hwa] at hfa
      | some w =>
        cases hp : a.pos with
        | none => simp [hwa, hp] at hfa
        | some q =>
          simp only [hwa, hp, Option.some.injEq] at hfa
          subst hfa
          refine ⟨?_, hb a ha (by simp [hwa]) q hp⟩
          rcases C01.lastW_some a.key k log none w hwa with hmem | hmem
          · exact mul_nonneg (hw _ hmem rfl) (hc a ha)
          · cases hmem
    have hw' : ∀ t ∈ declaredTerms geom cw log k, (0 : ℚ) ≤ t.1 := fun t ht => (hterm t ht).1
    have hpos : (0 : ℚ) < wsum (declaredTerms geom cw log k) := lt_of_le_of_ne (wsum_nonneg (K := ℚ) hw') (Ne.symm hs)
    have key : ∀ (n : V3 ℚ) (d : ℚ), (∀ t ∈ declaredTerms geom cw log k, n.dot t.2 ≤ d) → n.dot p ≤ d := by
      intro n d hbd
      rw [linear_of_mean (K := ℚ) hm n, div_le_iff₀ hpos]
      exact wcsum_le (K := ℚ) (fun q => n.dot q) d hw' hbd
    have ux := key ⟨1, 0, 0⟩ hi.x (by intro t ht; have := (hterm t ht).2; simp only [V3.dot]; linarith)
    have lx := key ⟨-1, 0, 0⟩ (-lo.x) (by intro t ht; have := (hterm t ht).2; simp only [V3.dot]; linarith)
    have uy := key ⟨0, 1, 0⟩ hi.y (by intro t ht; have := (hterm t ht).2; simp only [V3.dot]; linarith)
    have ly := key ⟨0, -1, 0⟩ (-lo.y) (by intro t ht; have := (hterm t ht).2; simp only [V3.dot]; linarith)
    have uz := key ⟨0, 0, 1⟩ hi.z (by intro t ht; have := (hterm t ht).2; simp only [V3.dot]; linarith)
    have lz := key ⟨0, 0, -1⟩ (-lo.z) (by intro t ht; have := (hterm t ht).2; simp only [V3.dot]; linarith)
    simp only [V3.dot] at ux lx uy ly uz lz
    refine ⟨?_, ?_, ?_, ?_, ?_, ?_⟩ <;> linarith
  · cases h

/-! ## one `run_system` -/

/-- **one `run_system`, molecules with and without `center_weight`**: each molecule of the system is
averaged as a fresh `DoAverageBead` would average it under ITS OWN force field — the centre weight
configured for one molecule never leaks into the next -/
theorem run_system_no_leak (p : Proc) (mols : List (Option String × List (Bead Rat))) :
    runSystemQ p mols = untilError (mols.map (fun mv => runMoleculeQ p.weight mv.1 p.ignoreMissing mv.2)) :=
  congrArg untilError (processor_stateless (K := ℚ) epsQ p mols)

/-- a system whose molecules all succeed: one outcome per molecule, in order -/
theorem run_system_all_ok (p : Proc) (mols : List (Option String × List (Bead Rat)))
    (h : ∀ mv ∈ mols, ∃ l, runMoleculeQ p.weight mv.1 p.ignoreMissing mv.2 = .ok l) :
    runSystemQ p mols = mols.map (fun mv => runMoleculeQ p.weight mv.1 p.ignoreMissing mv.2) := by
  rw [run_system_no_leak]
  induction mols with
  | nil => rfl
  | cons mv r ih =>
    obtain ⟨l, hl⟩ := h mv List.mem_cons_self
    simp only [List.map_cons, hl, untilError]
    rw [ih (fun x hx => h x (List.mem_cons_of_mem _ hx))]

/-! ## witnesses (non-vacuity, and the re-weighting case) -/

namespace PEx
/-- one target particle `B1` -/
def blockB1 : C12.Mol := { nodes := [(0, { name := some "B1", resid := some 1 })] }
/-- a target block with a second particle `D` nothing maps to -/
def blockB1D : C12.Mol :=
  { nodes := [(0, { name := some "B1", resid := some 1 }), (1, { name := some "D", resid := some 1 })], edges := [(0, 1)] }
/-- block match: atoms 10 and 11 on `B1`, weights 1 and 1 -/
def blk : Placement := { molToBlock := [(10, [(0, 1)]), (11, [(0, 1)])], block := blockB1, refs := [] }
def blkD : Placement := { molToBlock := [(10, [(0, 1)]), (11, [(0, 1)])], block := blockB1D, refs := [] }
/-- a second match that shares atom 11 (weight 3 there) -/
def blk2 : Placement := { molToBlock := [(11, [(0, 3)]), (20, [(0, 1)])], block := blockB1, refs := [] }
/-- modification match laid over `B1`: the anchor atom 11 is RE-WEIGHTED to 0, the PTM atom 12 gets weight 2 -/
def modOverlay : ModPlacement := ModPlacement.mk [(11, [(0, 0)]), (12, [(0, 2)])]
  [C01.ModNode.mk 0 { name := some "B1" } false {}] [] [] []
def geom : List (Atom ℚ) :=
  [.at 10 ⟨0, 0, 0⟩ [("mass", 12)], .at 11 ⟨4, 0, 0⟩ [("mass", 1)], .at 12 ⟨0, 3, 0⟩ [("mass", 6)],
   ⟨20, none, [("mass", 16)]⟩]
end PEx

open PEx in
/-- non-vacuity of `position_from_mapping_definition` and the re-weighting case: the block mapping gives
atoms 10, 11 weight 1; the modification mapping then re-weights 11 to 0 and adds 12 with weight 2.  The
particle sits at (0·1 + 4·0 + (0,3)·2)/3 = (0, 2, 0), mass-weighted at (0·12 + (0,3)·12)/24 = (0, 3/2, 0);
with the STALE block weight for atom 11 it would sit at (1, 3/2, 0): the last assignment wins.  The atom
at the origin is a constituent like any other. -/
theorem reweight_witness :
    (geom.map (·.key)).Nodup
    ∧ pipeline geom .unset none false [blk] [modOverlay] = .averaged [1] (.ok [some (some ⟨0, 2, 0⟩)])
    ∧ pipeline geom .unset (some "mass") false [blk] [modOverlay] = .averaged [1] (.ok [some (some ⟨0, 3 / 2, 0⟩)])
    ∧ declaredWeight (logFrom {} (eventsOf [blk] [modOverlay])) 11 1 = some 0
    ∧ beadPosQ none geom (some [(10, 1), (11, 1), (12, 2)]) = some ⟨1, 3 / 2, 0⟩ := by
  refine ⟨by decide +kernel, by decide +kernel, by decide +kernel, by decide +kernel, by decide +kernel⟩

open PEx in
/-- non-vacuity of `spawned_particle_undefined` and `shared_atom_counts_in_both`: particle `D` of the
block is undefined, `B1` is defined; atom 11 is shared by two matches with weights 1 and 3 and pulls
both particles; atom 20 has no coordinates and does not contribute -/
theorem spawned_shared_witness :
    pipeline geom .unset none false [blkD] [] = .averaged [1, 2] (.ok [some (some ⟨2, 0, 0⟩), some none])
    ∧ (2 : Int) ∈ C01.spawnedSpec C01.Off.zero (C01.order [blkD])
    ∧ pipeline geom .unset none false [blk, blk2] [] = .averaged [1, 2] (.ok [some (some ⟨2, 0, 0⟩), some (some ⟨4, 0, 0⟩)])
    ∧ declaredWeight (logFrom {} (eventsOf [blk, blk2] [])) 11 1 = some 1
    ∧ declaredWeight (logFrom {} (eventsOf [blk, blk2] [])) 11 2 = some 3 := by
  refine ⟨by decide +kernel, by decide +kernel, by decide +kernel, by decide +kernel, by decide +kernel⟩

open PEx in
/-- the hypotheses of `spawned_particle_undefined` (`assemble … = .ok r`) and of
`declared_in_bounding_box` (non-negative declared weights and centre weights) are satisfiable -/
example :
    (match C01.assemble { atoms := [], edges := [] } [blkD] with | .ok _ => true | .error _ => false) = true
    ∧ (∀ e ∈ logFrom {} (eventsOf [blk] [modOverlay]), e.2.1 = 1 → (0 : ℚ) ≤ e.2.2)
    ∧ (∀ a ∈ geom, (0 : ℚ) ≤ centerFactor (some "mass") a)
    ∧ declaredPos geom (some "mass") (logFrom {} (eventsOf [blk] [modOverlay])) 1 = some (some ⟨0, 3 / 2, 0⟩) := by
  refine ⟨by decide +kernel, by decide +kernel, by decide +kernel, by decide +kernel⟩

end C09
