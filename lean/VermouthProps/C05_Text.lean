import VermouthProofs.C05_Text
/-!
# C05 — links as they are written in a force-field file: which conditions a line declares

Model: `VermouthModel/C05_Text.lean` (`effectiveAttrs`, `treatAttrs`, `buildStep`, `buildLink`); helper
lemmas: `VermouthProofs/C05_Text.lean`.

A `[ link ]` section may state attributes for ALL its atoms (the lines directly under the header).  The
same key may be written again on one atom.  The rule of the reader, at every place where an attribute
dictionary can be written:

| site                                   | code                              | what the atom carries               |
|----------------------------------------|-----------------------------------|-------------------------------------|
| `[ atoms ]` line                       | `dict(ChainMap(line, link-wide))` | line over link-wide                 |
| atom of an interaction / `!` line      | `link-wide.copy().update(line)`   | line over link-wide                 |
| partner of a `[ non-edges ]` line      | `dict(ChainMap(line, link-wide))` | line over link-wide                 |
| atom of a `[ patterns ]` line          | kept as written                   | the line alone                      |
| `atom_attrs` of a removal template     | kept as written                   | the line alone                      |

Dictionaries are association lists; "is a dictionary" = the keys are distinct (`Nodup`), which is what
`json.loads` returns.
-/
namespace C05.Top
open C05

/-- THE precedence rule, as dictionary semantics: at every site the value written on the line is the value
the atom carries; a key the line does not write has the link-wide value at the three inheriting sites and is
absent at the two others. -/
theorem line_attrs_override_link_attrs (s : Site) (wide line : TAttrs) (k : String)
    (hd : (line.map (·.1)).Nodup) :
    (effectiveAttrs s wide line).lookup k =
      (line.lookup k).or (if s.inherits then wide.lookup k else none) := by
  unfold effectiveAttrs
  cases hs : s.inherits
  · simp
  · simp only [if_true]
    exact lookup_dmerge wide line hd k

/-- the hypothesis is satisfiable, and the rule bites: link-wide `resname "ALA|GLY|SER"`, non-edge partner
written `+BB {"resname": "PRO"}` -> the partner carries resname PRO -/
example : (effectiveAttrs .nonEdgePartner [("resname", .choice [.str "ALA", .str "GLY", .str "SER"])]
            [("resname", .plain (.str "PRO")), ("order", .plain (.int 1))]).lookup "resname"
          = some (.plain (.str "PRO")) := by decide

/-- the sites that inherit, and those that do not -/
theorem inheriting_sites :
    Site.atomLine.inherits = true ∧ Site.interAtom.inherits = true ∧ Site.nonEdgePartner.inherits = true ∧
    Site.patternAtom.inherits = false ∧ Site.delAtom.inherits = false := by decide

/-- the merged dictionary is a dictionary again -/
theorem effectiveAttrs_nodup (s : Site) (wide line : TAttrs)
    (hw : (wide.map (·.1)).Nodup) (hd : (line.map (·.1)).Nodup) :
    ((effectiveAttrs s wide line).map (·.1)).Nodup := by
  unfold effectiveAttrs
  split
  · exact nodup_dmerge wide line hw
  · exact hd

/-- What the merged dictionary REQUIRES of a molecule atom (`attributes_match`): every condition written
on the line, and - at an inheriting site - every link-wide condition whose key the line does not write.
A link-wide condition on a key the line writes is NOT required. -/
theorem effective_match_iff (s : Site) (a : Attrs) (wide line : TAttrs) (ign : List String)
    (hw : (wide.map (·.1)).Nodup) (hd : (line.map (·.1)).Nodup) :
    attributesMatch a (effectiveAttrs s wide line) ign =
      (attributesMatch a line ign &&
        (!s.inherits || attributesMatch a (wide.filter fun kv => !(line.any (·.1 == kv.1))) ign)) := by
  rw [Bool.eq_iff_iff]
  unfold attributesMatch
  generalize (fun kv : String × TVal => ign.contains kv.1 || valMatch a kv.1 kv.2) = P
  have hf := nodup_filter_keys wide (fun kv => !(line.any (·.1 == kv.1))) hw
  rw [Bool.and_eq_true, Bool.or_eq_true, all_iff_lookup _ (effectiveAttrs_nodup s wide line hw hd) P,
      all_iff_lookup _ hd P, all_iff_lookup _ hf P]
  constructor
  · intro h
    refine ⟨?_, ?_⟩
    · intro k v hl
      apply h k v
      rw [line_attrs_override_link_attrs s wide line k hd, hl]
      rfl
    · cases hs : s.inherits
      · exact Or.inl rfl
      · refine Or.inr ?_
        intro k v hl
        rw [lookup_filter_notin] at hl
        split at hl
        · cases hl
        · rename_i hk
          apply h k v
          rw [line_attrs_override_link_attrs s wide line k hd, lookup_none_of_not_key line k hk, hs]
          simpa using hl
  · rintro ⟨h1, h2⟩ k v hl
    rw [line_attrs_override_link_attrs s wide line k hd] at hl
    cases hlk : line.lookup k with
    | some v' =>
      rw [hlk] at hl
      simp only [Option.some_or, Option.some.injEq] at hl
      subst hl
      exact h1 k v' hlk
    | none =>
      rw [hlk] at hl
      cases hs : s.inherits
      · simp [hs] at hl
      · simp only [hs, if_true, Option.none_or] at hl
        rcases h2 with h2 | h2
        · rw [hs] at h2; cases h2
        · apply h2 k v
          rw [lookup_filter_notin]
          have : k ∉ line.map (·.1) := fun hc => by
            obtain ⟨x, hx, hxe⟩ := List.mem_map.1 hc
            obtain ⟨kx, vx⟩ := x
            simp only at hxe
            subst hxe
            rw [(mem_iff_lookup line hd kx vx).1 hx] at hlk
            cases hlk
          simp [this, hl]

/-- non-vacuity: a PRO atom satisfies the partner `+BB {"resname": "PRO"}` of a link that is written for
`resname "ALA|GLY|SER"`, an ALA atom does not (and with the precedence reverted it would be the opposite) -/
example :
    attributesMatch [("resname", .str "PRO")]
      (effectiveAttrs .nonEdgePartner [("resname", .choice [.str "ALA", .str "GLY", .str "SER"])]
        [("resname", .plain (.str "PRO"))]) ignoredKeys = true ∧
    attributesMatch [("resname", .str "ALA")]
      (effectiveAttrs .nonEdgePartner [("resname", .choice [.str "ALA", .str "GLY", .str "SER"])]
        [("resname", .plain (.str "PRO"))]) ignoredKeys = false := by decide

/-- the value written on the line decides: an atom accepted by the merged dictionary satisfies the line's
own condition for every key the line writes (whatever the link says for that key) -/
theorem line_value_decides (s : Site) (a : Attrs) (wide line : TAttrs) (ign : List String) (k : String) (tv : TVal)
    (hw : (wide.map (·.1)).Nodup) (hd : (line.map (·.1)).Nodup)
    (hm : attributesMatch a (effectiveAttrs s wide line) ign = true)
    (hk : line.lookup k = some tv) (hi : ign.contains k = false) :
    valMatch a k tv = true := by
  rw [effective_match_iff s a wide line ign hw hd, Bool.and_eq_true] at hm
  have h1 := hm.1
  unfold attributesMatch at h1
  rw [all_iff_lookup _ hd] at h1
  have h2 := h1 k tv hk
  simp only [hi, Bool.false_or] at h2
  exact h2

/-! ## the order an atom declares (`_treat_atom_prefix`) -/

/-- the order an atom is DECLARED to have: the explicit `order` attribute if it is given (not null), else
what the prefix of the reference spells, else 0 -/
def declaredOrder (m : Mention) : TVal :=
  match explicitOrder m.written with
  | some o => o
  | none => m.prefixOrder.getD (.plain (.int 0))

/-- when the reader accepts the reference, the atom carries exactly its declared order, and the atom name
written on the line or else the base of the reference -/
theorem treatAttrs_declares (m : Mention) (line : TAttrs) (h : treatAttrs m = some line) :
    line.lookup "order" = some (declaredOrder m) ∧
    line.lookup "atomname" = some ((m.written.lookup "atomname").getD (.plain (.str m.base))) := by
  unfold treatAttrs at h
  split at h
  · simp only [Option.some.injEq] at h
    subst h
    have hne : ("atomname" : String) ≠ "order" := by decide
    have hne' : ("order" : String) ≠ "atomname" := by decide
    -- the dictionary after the order was settled
    have ho : (withOrder m).lookup "order" = some (declaredOrder m) := by
      unfold withOrder declaredOrder
      cases he : explicitOrder m.written with
      | some o =>
        simp only
        unfold explicitOrder at he
        split at he <;> simp_all
      | none => simp only; rw [lookup_dset]; simp
    have ha : (withOrder m).lookup "atomname" = m.written.lookup "atomname" := by
      unfold withOrder
      cases he : explicitOrder m.written with
      | some o => rfl
      | none => simp only; rw [lookup_dset]; simp [hne]
    unfold withAtomname
    cases hx : m.written.lookup "atomname" with
    | some an => simp [ha, hx, ho]
    | none =>
      rw [ha, hx]
      simp only [Option.isSome_none, Bool.false_eq_true, if_false, Option.getD_none]
      rw [lookup_append_one, lookup_append_one, ho, ha, hx]
      simp
  · cases h

/-- `+BB` and `BB {"order": 1}` declare the same atom conditions -/
example : treatAttrs { key := 0, prefixOrder := some (.plain (.int 1)), base := "BB", written := [] } =
          some [("order", .plain (.int 1)), ("atomname", .plain (.str "BB"))] ∧
          treatAttrs { key := 0, prefixOrder := none, base := "BB", written := [("order", .plain (.int 1))] } =
          some [("order", .plain (.int 1)), ("atomname", .plain (.str "BB"))] := by decide

/-- a prefix and an explicit order that disagree, or an explicit order that is not one, are rejected -/
theorem treatAttrs_rejects (m : Mention) (o : TVal) (ho : explicitOrder m.written = some o)
    (hbad : validExplicitOrder o = false ∨ ∃ p, m.prefixOrder = some p ∧ o ≠ p) :
    treatAttrs m = none := by
  have hk : orderOk m = false := by
    unfold orderOk
    rcases hbad with hb | ⟨p, hp, hne⟩
    · cases hpo : m.prefixOrder <;> simp [ho, hb]
    · have : (o == p) = false := by simp [hne]
      simp [ho, hp, this]
  simp [treatAttrs, hk]

example : treatAttrs { key := 0, prefixOrder := some (.plain (.int 1)), base := "BB",
                        written := [("order", .plain (.int 2))] } = none := by decide

/-! ## the lines of a link -/

/-- a `[ non-edges ]` line adds exactly one non-edge: anchored at the first atom's key, forbidding the
neighbours that satisfy the partner's line merged over the link-wide attributes (line first) -/
theorem nonEdge_line_declares (wide : TAttrs) (s s' : BState) (anchor partner : Mention)
    (h : buildStep wide s (.nonEdge anchor partner) = some s') :
    ∃ line, treatAttrs partner = some line ∧
      s'.nonEdges = s.nonEdges ++ [(anchor.key, effectiveAttrs .nonEdgePartner wide line)] ∧
      s'.nodes = s.nodes := by
  simp only [buildStep] at h
  split at h
  · rename_i x line _ hl
    simp only [Option.some.injEq] at h
    subst h
    exact ⟨line, hl, rfl, rfl⟩
  · cases h

/-- a `[ patterns ]` line is kept as written: no link-wide attribute reaches a pattern atom -/
theorem pattern_line_declares (wide : TAttrs) (s s' : BState) (atoms : List (Int × TAttrs))
    (h : buildStep wide s (.pattern atoms) = some s') :
    s'.patterns = s.patterns ++ [atoms] := by
  simp only [buildStep, Option.some.injEq] at h
  subst h
  have : (fun ka : Int × TAttrs => (ka.1, effectiveAttrs .patternAtom wide ka.2)) = id := by
    funext ka
    simp [effectiveAttrs, Site.inherits]
  simp only [this, List.map_id]

/-- an `[ atoms ]` line for an atom that already exists is rejected (the reader raises) -/
theorem atoms_line_existing_rejected (wide : TAttrs) (nodes : List LNode) (m : Mention)
    (h : nodes.any (·.key == m.key) = true) : declareNode wide nodes m = none := by
  unfold declareNode
  split
  · rfl
  · simp [h]

/-- a new atom declared by an `[ atoms ]` line carries its line merged over the link-wide attributes -/
theorem atoms_line_declares (wide : TAttrs) (nodes nodes' : List LNode) (m : Mention)
    (h : declareNode wide nodes m = some nodes') :
    ∃ line, treatAttrs m = some line ∧
      nodes' = nodes ++ [{ key := m.key, attrs := effectiveAttrs .atomLine wide line, replace := m.replace }] := by
  unfold declareNode at h
  split at h
  · cases h
  · rename_i line hl
    split at h
    · cases h
    · simp only [Option.some.injEq] at h
      exact ⟨line, hl, h.symm⟩

/-- an atom mentioned on an interaction line whose merged dictionary contradicts what the node already
holds is rejected: an atom that states its own value for a link-wide key must do so at every mention -/
theorem mention_conflict_rejected (wide : TAttrs) (nodes : List LNode) (m : Mention) (line : TAttrs) (n : LNode)
    (hl : treatAttrs m = some line) (hn : nodes.find? (·.key == m.key) = some n)
    (hc : conflicts n.attrs (effectiveAttrs .interAtom wide line) = true) :
    touchNode wide nodes m = none := by
  unfold touchNode
  simp [hl, hn, hc]

/-- non-vacuity: atom declared with its own resname GLY under link-wide resname ALA, mentioned again
without it -/
example :
    let wide : TAttrs := [("resname", .plain (.str "ALA"))]
    let m1 : Mention := { key := 0, prefixOrder := none, base := "BB", written := [("resname", .plain (.str "GLY"))] }
    let m2 : Mention := { key := 0, prefixOrder := none, base := "BB", written := [] }
    ((declareNode wide [] m1).bind fun ns => touchNode wide ns m2) = none ∧
    ((declareNode wide [] m1).bind fun ns => touchNode wide ns m1).isSome = true := by decide

end C05.Top
