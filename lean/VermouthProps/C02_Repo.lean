import VermouthProofs.C02_C13Class
import VermouthProofs.C02_C13Refine
import VermouthProps.C02
import Generated.C02Tables
import Generated.C02RepoTables
/-!
# C02 ∘ C13 — the repo's OWN reader reads back what the writer writes

`C13.readITP` is the Lean model of `vermouth.gmx.itp_read.read_itp` built for property C13
(`VermouthModel/C13_Reader.lean`: `classify`, the `#ifdef` pragma pass, macro expansion, the
`ITPDirector` section dispatcher, `_block`, `_parse_block_atom`, `_interactions` with the extracted
`atom_idxs`).  `C02.Repo.readITPx` is the same reader on a context that also records the tokens of
every atom row and the `nrexcl` token (`readITPx_refines`: forgetting the record gives `C13.readITP`
on EVERY input).  The theorems below run that reader on `render (write m)`.

Tables: `Generated/C02RepoTables.lean` (`ITPDirector.METH_DICT`, `ITPDirector.atom_idxs` in the C13
format) and `Generated/C02Tables.lean` are re-extracted on every run; `tables_ok` re-checks by
`decide` what the proofs use of them.
-/
namespace C02.Repo
open C13

/-- everything the proofs use of the extracted tables, as one decidable check -/
def tablesOk (tab : List Entry) (idxTab : List (String × List Idx)) (tbl : List (String × Arity)) : Bool :=
  (match findEntry tab ["moleculetype"] with | some e => e.method == "_block" | none => false)
  && (match findEntry tab ["moleculetype", "atoms"] with | some e => e.method == "_block_atoms" | none => false)
  && tbl.all (fun p =>
      (match findEntry tab ["moleculetype", p.1] with | some e => e.method == "_interactions" | none => false)
      && (match idxTab.find? (fun e => e.1 = p.1) with | some q => idxMatch p.2 q.2 | none => false)
      && !(tab.map (·.path)).contains [p.1]
      && hdrName p.1 == p.1 && p.1 != "macros")
  && (tab.map (·.path)).all (fun p => decide (p.length ≤ 2))
  && !(tab.map (·.path)).contains ["atoms"]
  && hdrName "moleculetype" == "moleculetype" && hdrName "atoms" == "atoms"

/-- the extracted `METH_DICT` registers `_block`, `_block_atoms` and `_interactions` where the proofs
need them, no section path is deeper than two, every section of `atom_idxs` has an index list of the
shape C02's reader derives its arity from, keeps its name under `strip('[ ]').casefold()`, is not
top-level and is not `macros`. -/
theorem tables_ok : tablesOk itpTab itpIdx C02.arityTable = true := by decide

structure TablesFacts (tab : List Entry) (idxTab : List (String × List Idx)) (tbl : List (String × Arity)) :
    Prop where
  F : TabFacts tab idxTab tbl
  names : ∀ p ∈ tbl, hdrName p.1 = p.1
  nomac : ∀ p ∈ tbl, p.1 ≠ "macros"
  mol : hdrName "moleculetype" = "moleculetype"
  atoms : hdrName "atoms" = "atoms"

theorem tablesFacts_of (tab : List Entry) (idxTab : List (String × List Idx)) (tbl : List (String × Arity))
    (h : tablesOk tab idxTab tbl = true) : TablesFacts tab idxTab tbl := by
  simp only [tablesOk, Bool.and_eq_true, List.all_eq_true, Bool.not_eq_true', beq_iff_eq, bne_iff_ne, ne_eq,
    decide_eq_true_eq] at h
  obtain ⟨⟨⟨⟨⟨⟨h1, h2⟩, h3⟩, h4⟩, h5⟩, h6⟩, h7⟩ := h
  have hmol : ∃ e, findEntry tab ["moleculetype"] = some e ∧ e.method = "_block" := by
    cases he : findEntry tab ["moleculetype"] with
    | none => rw [he] at h1; cases h1
    | some e => rw [he] at h1; exact ⟨e, rfl, by simpa using h1⟩
  have hat : ∃ e, findEntry tab ["moleculetype", "atoms"] = some e ∧ e.method = "_block_atoms" := by
    cases he : findEntry tab ["moleculetype", "atoms"] with
    | none => rw [he] at h2; cases h2
    | some e => rw [he] at h2; exact ⟨e, rfl, by simpa using h2⟩
  refine ⟨⟨hmol, hat, ?_, ?_, ?_, ?_⟩, ?_, ?_, h6, h7⟩
  · intro s ar hs
    obtain ⟨⟨⟨⟨a1, a2⟩, _⟩, _⟩, _⟩ := h3 (s, ar) hs
    cases he : findEntry tab ["moleculetype", s] with
    | none => rw [he] at a1; cases a1
    | some e =>
      rw [he] at a1
      refine ⟨e, rfl, by simpa using a1, ?_⟩
      cases hq : idxTab.find? (fun e => e.1 = s) with
      | none => simp only at a2; rw [hq] at a2; cases a2
      | some q =>
        simp only at a2
        rw [hq] at a2
        have hq1 : q.1 = s := by simpa using List.find?_some hq
        obtain ⟨q1, q2⟩ := q
        simp only at hq1
        subst hq1
        exact ⟨q2, rfl, a2⟩
  · intro p hp
    exact h4 p hp
  · simpa using h5
  · intro s ar hs
    obtain ⟨⟨⟨_, a3⟩, _⟩, _⟩ := h3 (s, ar) hs
    simpa using a3
  · intro p hp
    exact (h3 p hp).1.2
  · intro p hp
    exact (h3 p hp).2

/-! ## the round trip through the repo's own reader -/

/-- Round trip through `read_itp` (recording reader), any tables that pass `tablesOk`, the left-over
sections written in ANY order (`names`: any list of left-over names, e.g. a permutation). -/
theorem repo_reader_roundtrip_ord (tab : List Entry) (idxTab : List (String × List Idx))
    (tbl : List (String × Arity)) (hT : tablesOk tab idxTab tbl = true) (m : Mol)
    (h : wellFormed tbl m = true) (hc : charOk m = true) (hr : repoOk (tab.map (·.path)) m = true)
    (names : List String) (hsub : ∀ n ∈ names, n ∈ remainingNames m) :
    ∃ ls blk, writeOrd m names = .ok ls
      ∧ readITPx idxTab tab (textLines (render ls)) = some [(some m.moltype, (0, blk))]
      ∧ viewBlock blk = some (canon m)
      ∧ blk.base.nodes.map (·.1) = (List.range m.atoms.length).map (fun (k : Nat) => toString k) := by
  obtain ⟨F, hnames, hnomac, hmol, hat⟩ := tablesFacts_of tab idxTab tbl hT
  have hw := C02.wfFacts_of tbl m h
  have hcf := C02.charFacts_of m hc
  have hrf := repoFacts_of _ m hr
  have hgood := C02.fileLinesOrd_good tbl m hw hcf names hsub
  have hrepo := fileLinesOrd_repo F m hw hcf hrf hnames hnomac hmol hat names hsub
  obtain ⟨cf, hwalk, hview⟩ := walk_fileOrd F m hw hcf hrf hnames hmol hat names hsub
  refine ⟨C02.fileLinesOrd m names, cf, C02.writeOrd_ok tbl m hw names, ?_, ?_, ?_⟩
  · rw [textLines_render _ (fun l hl => C02.noNl_of_good l (hgood l hl))]
    rw [readITPx_fused idxTab tab _ ((C02.fileLinesOrd m names).flatMap cls)
      (classify_lines _ (fun l hl => (line_cls_ok l (hgood l hl) (hrepo l hl)).1))
      (by
        intro x hx
        simp only [List.mem_flatMap] at hx
        obtain ⟨l, hl, hxl⟩ := hx
        exact (line_cls_ok l (hgood l hl) (hrepo l hl)).2 x hxl)]
    exact hwalk
  · obtain ⟨f1, f2, f3, f4, _⟩ := addAtoms_fields (C02.widthsOf m) (C02.sortedNodes m) 0 (ctxMol m)
    unfold viewBlock
    rw [hview.name, f3, hview.nrexcl, f2, hview.rows, f1, hview.inters, f4]
    simp only [ctxMol, List.nil_append, Option.bind_eq_bind, Option.bind_some]
    rw [mapM_rowAtom _ _ (fun a ha => hw.atomsOk a ((C02.sortedNodes_perm m).mem_iff.mp ha)) 1]
    rw [view_fileRecs m hw]
    rfl
  · obtain ⟨_, _, _, _, f5⟩ := addAtoms_fields (C02.widthsOf m) (C02.sortedNodes m) 0 (ctxMol m)
    rw [hview.nodes, f5, C02.sortedNodes_length]
    simp [ctxMol, List.range_eq_range']

/-- **Round trip through `read_itp` (recording reader), any tables that pass `tablesOk`.** -/
theorem repo_reader_roundtrip_gen (tab : List Entry) (idxTab : List (String × List Idx))
    (tbl : List (String × Arity)) (hT : tablesOk tab idxTab tbl = true) (m : Mol)
    (h : wellFormed tbl m = true) (hc : charOk m = true) (hr : repoOk (tab.map (·.path)) m = true) :
    ∃ ls blk, write m = .ok ls
      ∧ readITPx idxTab tab (textLines (render ls)) = some [(some m.moltype, (0, blk))]
      ∧ viewBlock blk = some (canon m)
      ∧ blk.base.nodes.map (·.1) = (List.range m.atoms.length).map (fun (k : Nat) => toString k) :=
  repo_reader_roundtrip_ord tab idxTab tbl hT m h hc hr (remainingNames m) (fun _ h => h)

/-- **`repo_reader_roundtrip`** — for every molecule in the domain of the C02 round trip
(`wellFormed`, `charOk`) that the repo's reader can express (`repoOk`: int/float literals, no `$`/braces
in tokens, free lines are comments or `#define`, molecule name not starting with `[` `#`, left-over
sections not `moleculetype`/`macros`), the writer succeeds and the Lean model of the repo's own
`read_itp`, run on the rendered TEXT, returns exactly one block, registered under the molecule name,
whose view (`viewBlock`: rows as text, node key `k` ↦ row `k+1`, meta `{condition: tag}` ↦ guard) IS
`canon m`: moleculetype line, the atom rows 1..N in atom-id order with the six attributes (and
charge/mass when present), every interaction in its section (impropers under dihedrals), inside its
`#ifdef`/`#ifndef`, on the same atoms through the renumbering table, with the same parameters
(`virtual_sitesn`: function type after the first atom); the block's nodes are `0..N-1` in row order.
Node keys, node order, atom ids, column widths are arbitrary. -/
theorem repo_reader_roundtrip (m : Mol) (h : wellFormed arityTable m = true) (hc : charOk m = true)
    (hr : repoOk (itpTab.map (·.path)) m = true) :
    ∃ ls blk, write m = .ok ls
      ∧ readITPx itpIdx itpTab (textLines (render ls)) = some [(some m.moltype, (0, blk))]
      ∧ viewBlock blk = some (canon m)
      ∧ blk.base.nodes.map (·.1) = (List.range m.atoms.length).map (fun (k : Nat) => toString k) :=
  repo_reader_roundtrip_gen itpTab itpIdx arityTable tables_ok m h hc hr

/-- the recording reader IS C13's reader with the record forgotten, on every input -/
theorem recording_reader_refines (raw : List String) :
    (readITPx itpIdx itpTab raw).map eraseBlocks = C13.readITP itpIdx itpTab raw :=
  readITPx_refines itpIdx itpTab raw

/-- **C13's model itself** (`C13.readITP`, unmodified) on the written text: one block under the molecule
name, nodes `0..N-1`, and its interactions — section, `#ifdef`/`#ifndef` meta, atoms mapped back
through node key ↦ row number, parameters — are exactly those of `canon m`, in file order. -/
theorem c13_reader_roundtrip (m : Mol) (h : wellFormed arityTable m = true) (hc : charOk m = true)
    (hr : repoOk (itpTab.map (·.path)) m = true) :
    ∃ ls ctx, write m = .ok ls
      ∧ C13.readITP itpIdx itpTab (textLines (render ls)) = some [(some m.moltype, (0, ctx))]
      ∧ ctx.name = some m.moltype
      ∧ ctx.nodes.map (·.1) = (List.range m.atoms.length).map (fun (k : Nat) => toString k)
      ∧ viewBase ctx = some (canon m).inters := by
  obtain ⟨ls, blk, h1, h2, h3, h4⟩ := repo_reader_roundtrip m h hc hr
  refine ⟨ls, blk.base, h1, ?_, ?_, h4, ?_⟩
  · rw [← recording_reader_refines, h2]; rfl
  · unfold viewBlock at h3
    cases hn : blk.base.name with
    | none => rw [hn] at h3; simp at h3
    | some n =>
      rw [hn] at h3
      cases hx : blk.nrexcl with
      | none => rw [hx] at h3; simp at h3
      | some x =>
        rw [hx] at h3
        cases ha : blk.rows.mapM rowAtom with
        | none => rw [ha] at h3; simp at h3
        | some a =>
          rw [ha] at h3
          cases hi : blk.base.inters.mapM viewInter with
          | none => rw [hi] at h3; simp at h3
          | some i =>
            rw [hi] at h3
            simp only [Option.bind_eq_bind, Option.bind_some, Option.pure_def, Option.some.injEq] at h3
            have := congrArg Parsed.moltype h3
            simp only [canon, Option.some.injEq, Prod.mk.injEq] at this
            rw [this.1]
  · unfold viewBlock at h3
    unfold viewBase
    cases hn : blk.base.name with
    | none => rw [hn] at h3; simp at h3
    | some n =>
      rw [hn] at h3
      cases hx : blk.nrexcl with
      | none => rw [hx] at h3; simp at h3
      | some x =>
        rw [hx] at h3
        cases ha : blk.rows.mapM rowAtom with
        | none => rw [ha] at h3; simp at h3
        | some a =>
          rw [ha] at h3
          cases hi : blk.base.inters.mapM viewInter with
          | none => rw [hi] at h3; simp at h3
          | some i =>
            rw [hi] at h3
            simp only [Option.bind_eq_bind, Option.bind_some, Option.pure_def, Option.some.injEq] at h3
            rw [← h3]

/-! ## non-vacuity -/

def exRepoMol : Mol :=
  { C02.exMol with
    pre := [("atoms", ["; pre"]), ("settles", ["  ; only here", "#define Q 1"])],
    post := [("bonds", ["#define RUBBER 500"])] }

example : wellFormed arityTable exRepoMol = true := by decide
example : charOk exRepoMol = true := by decide
/-- the left-over sections are among the names that carry pre/post lines -/
theorem remaining_all (T : List Path) (m : Mol)
    (h : ∀ p ∈ m.pre ++ m.post, (!T.contains [hdrName p.1] && hdrName p.1 != "macros") = true) :
    (C02.remainingNames m).all (fun n => !T.contains [hdrName n] && hdrName n != "macros") = true := by
  rw [List.all_eq_true]
  intro n hn
  simp only [C02.remainingNames, List.mem_filter] at hn
  have hn' := hn.1
  rw [List.mem_eraseDups] at hn'
  simp only [List.mem_append, List.mem_map] at hn'
  rcases hn' with ⟨p, hp, rfl⟩ | ⟨p, hp, rfl⟩
  · exact h p (by simp [hp])
  · exact h p (by simp [hp])

theorem pyInt_lit (s : String) (n : Nat) (h : s = toString n) : (pyInt? s).isSome = true := by
  subst h; rw [pyInt_toString]; rfl

theorem exRepoMol_local : repoOkLocal exRepoMol = true := by
  have p1 := pyInt_lit "1" 1 (by decide)
  have p2 := pyInt_lit "2" 2 (by decide)
  have p3 := pyInt_lit "3" 3 (by decide)
  simp only [repoOkLocal, exRepoMol, C02.exMol, atomRepoOk, List.all_cons, List.all_nil, p1, p2, p3,
    Bool.true_and, Bool.and_true]
  decide

/-- the hypotheses of `repo_reader_roundtrip` are satisfiable by a molecule with sparse, negative and
unordered keys, a permuted / partly absent atom id, guards, groups, impropers, `virtual_sitesn`,
`exclusions`, free `#define`/comment lines and a left-over section (`settles`: pre lines only) -/
example : repoOk (itpTab.map (·.path)) exRepoMol = true := by
  simp only [repoOk, Bool.and_eq_true]
  exact ⟨exRepoMol_local, remaining_all _ _ (by decide)⟩
example : ∃ ls blk, write exRepoMol = .ok ls
    ∧ readITPx itpIdx itpTab (textLines (render ls)) = some [(some "X", (0, blk))]
    ∧ viewBlock blk = some (canon exRepoMol) := by
  obtain ⟨ls, blk, h1, h2, h3, _⟩ := repo_reader_roundtrip exRepoMol (by decide) (by decide) (by
    simp only [repoOk, Bool.and_eq_true]
    exact ⟨exRepoMol_local, remaining_all _ _ (by decide)⟩)
  exact ⟨ls, blk, h1, h2, h3⟩

end C02.Repo
