import VermouthProps.C16File
import VermouthProofs.C16_Gro
/-!
# C16 — GRO: whole-file round trip on the layout extracted from the repository

`read_gro` finds out the width of the coordinate columns from the positions of the decimal
points in the first atom line; `gro_detect` shows that on any line written by `write_gro` it finds
the 8 columns of the writer (overflowing coordinates included), so its columns are the writer's
fields (`layouts_agree_gro`), and `gro_file_roundtrip` puts the file together.
-/
namespace C16
open Layout

theorem drop_append_len {α : Type} (P Q : List α) (n : Nat) (h : P.length = n) : (P ++ Q).drop n = Q := by
  subst h; simp

theorem filter_eq_nil_of_all_ne (l : List Char) (c : Char) (h : l.all (· ≠ c) = true) :
    l.filter (· = c) = [] := by
  rw [List.filter_eq_nil_iff]
  intro x hx
  have := List.all_eq_true.mp h x hx
  simpa using this

/-- the spec of the three coordinate fields of the GRO format string, and what `read_gro`'s
detection relies on -/
theorem gro_coord_specs :
    groFmt = [.fld .resid ⟨' ', .dflt, 5, 0, .d, true⟩, .fld .resname ⟨' ', .left, 5, 0, .s, true⟩,
              .fld .atomname ⟨' ', .right, 5, 0, .s, true⟩, .fld .atomid ⟨' ', .dflt, 5, 0, .d, true⟩,
              .fld .x ⟨' ', .dflt, 8, 3, .f, true⟩, .fld .y ⟨' ', .dflt, 8, 3, .f, true⟩,
              .fld .z ⟨' ', .dflt, 8, 3, .f, true⟩] ∧ groDotFrom = 25 := by
  decide

def dotCount (l : List Char) : Nat := (l.filter (· = '.')).length

/-- **detection of the format, in general.**  On the atom line `write_gro` produces for ANY atom —
any coordinates, any names, points in the names included — followed by anything (`V`: nothing, or
the velocity fields): `read_gro` searches the two points that give it the column width from column
25 on, i.e. inside the coordinate block, and always finds 8 columns; and it decides on velocities
by counting the points from column 20 on, i.e. after the four identifier fields: three from the
coordinates plus those of `V`.  Points in residue or atom names never influence the detection
(since the repair of F-C16-4; the old rule: `gro_detect_old_rule_witness`). -/
theorem gro_detect_gen (serial : Nat) (a : Atom) (V : List Char) :
    (groDetect gro (groLine gro serial a ++ V)).hasVel = decide (3 + dotCount V = 6) ∧
    (groDetect gro (groLine gro serial a ++ V)).slices =
      if 3 + dotCount V = 6 then groSlicesV 8 else groSlices 8 := by
  let sd : Spec := ⟨' ', .dflt, 5, 0, .d, true⟩
  let sf : Spec := ⟨' ', .dflt, 8, 3, .f, true⟩
  obtain ⟨T1, F1, h1, hT1, hF1, dT1, dF1⟩ := renderField_fix_shape sf a.x rfl rfl rfl (by decide) (by decide) (by decide)
  obtain ⟨T2, F2, h2, hT2, hF2, dT2, dF2⟩ := renderField_fix_shape sf a.y rfl rfl rfl (by decide) (by decide) (by decide)
  obtain ⟨T3, F3, h3, hT3, hF3, dT3, dF3⟩ := renderField_fix_shape sf a.z rfl rfl rfl (by decide) (by decide) (by decide)
  let A : List Char := renderField sd (.int (a.resid.getD 1)) ++
    renderField ⟨' ', .left, 5, 0, .s, true⟩ (.str (a.resname.getD [])) ++
    renderField ⟨' ', .right, 5, 0, .s, true⟩ (.str (a.atomname.getD [])) ++ renderField sd (.int serial)
  have hA : A.length = 20 := by
    simp only [A, List.length_append]
    rw [length_renderField _ _ rfl (by decide), length_renderField _ _ rfl (by decide),
      length_renderField _ _ rfl (by decide), length_renderField _ _ rfl (by decide)]
    rfl
  have hline : groLine gro serial a = A ++ (T1 ++ '.' :: F1) ++ (T2 ++ '.' :: F2) ++ (T3 ++ '.' :: F3) := by
    rw [← h1, ← h2, ← h3]
    simp [groLine, gro, groFmt, render, segText, A, atomEnv, sd, sf]
  simp only [sf] at hT1 hT2 hT3 hF1 hF2 hF3
  have hd1 : (groLine gro serial a ++ V).drop 25 = (F1 ++ T2) ++ '.' :: (F2 ++ (T3 ++ '.' :: F3) ++ V) := by
    have : groLine gro serial a ++ V = (A ++ T1 ++ ['.']) ++ ((F1 ++ T2) ++ '.' :: (F2 ++ (T3 ++ '.' :: F3) ++ V)) := by
      rw [hline]; simp
    rw [this]
    exact drop_append_len _ _ 25 (by simp [hA, hT1])
  have hf1 : findFrom (groLine gro serial a ++ V) '.' 25 = some 32 := by
    have := findFrom_spec _ '.' 25 _ _ hd1 (by
      intro x hx
      rcases List.mem_append.mp hx with h | h
      · simpa using List.all_eq_true.mp dF1 x h
      · simpa using List.all_eq_true.mp dT2 x h)
    rw [this]; simp [hF1, hT2]
  have hd2 : (groLine gro serial a ++ V).drop 33 = (F2 ++ T3) ++ '.' :: (F3 ++ V) := by
    have : groLine gro serial a ++ V = (A ++ T1 ++ ['.'] ++ F1 ++ T2 ++ ['.']) ++ ((F2 ++ T3) ++ '.' :: (F3 ++ V)) := by
      rw [hline]; simp
    rw [this]
    exact drop_append_len _ _ 33 (by simp [hA, hT1, hF1, hT2])
  have hf2 : findFrom (groLine gro serial a ++ V) '.' 33 = some 40 := by
    have := findFrom_spec _ '.' 33 _ _ hd2 (by
      intro x hx
      rcases List.mem_append.mp hx with h | h
      · simpa using List.all_eq_true.mp dF2 x h
      · simpa using List.all_eq_true.mp dT3 x h)
    rw [this]; simp [hF2, hT3]
  -- the part of the line the reader counts: everything after the 20 identifier columns
  have hd20 : (groLine gro serial a ++ V).drop 20 = (T1 ++ '.' :: F1) ++ (T2 ++ '.' :: F2) ++ (T3 ++ '.' :: F3) ++ V := by
    have : groLine gro serial a ++ V = A ++ ((T1 ++ '.' :: F1) ++ (T2 ++ '.' :: F2) ++ (T3 ++ '.' :: F3) ++ V) := by
      rw [hline]; simp
    rw [this]
    exact drop_append_len _ _ 20 hA
  have hcount : (((groLine gro serial a ++ V).drop 20).filter (· = '.')).length = 3 + dotCount V := by
    rw [hd20]
    simp only [dotCount, List.filter_append, List.filter_cons, decide_true, if_true, List.length_append,
      List.length_cons, filter_eq_nil_of_all_ne _ _ dT1, filter_eq_nil_of_all_ne _ _ dF1,
      filter_eq_nil_of_all_ne _ _ dT2, filter_eq_nil_of_all_ne _ _ dF2, filter_eq_nil_of_all_ne _ _ dT3,
      filter_eq_nil_of_all_ne _ _ dF3, List.length_nil]
    try omega
  have hdot : gro.dotFrom = 25 := rfl
  have hcf : gro.countFrom = 20 := rfl
  unfold groDetect
  rw [hdot, hcf, hf1, hcount]
  dsimp only
  have e : (((32 : Nat) : Int) + 1).toNat = 33 := by decide
  rw [e, hf2]
  by_cases hv : 3 + dotCount V = 6
  · simp only [hv, decide_true, if_true]
    constructor
    · trivial
    · decide
  · simp only [hv, decide_false, if_false]
    constructor
    · trivial
    · decide

/-- **detection of the coordinate width.**  On EVERY atom line `write_gro` produces without
velocities — whatever the coordinates, overflowing or not, whatever the names, points included —
`read_gro` detects 8-column coordinates and no velocities. -/
theorem gro_detect (serial : Nat) (a : Atom) :
    (groDetect gro (groLine gro serial a)).slices = groSlices 8 ∧
    (groDetect gro (groLine gro serial a)).hasVel = false := by
  have h := gro_detect_gen serial a []
  simp only [List.append_nil] at h
  have hne : ¬ (3 + dotCount [] = 6) := by
    simp only [dotCount, List.filter_nil, List.length_nil]; omega
  rw [h.1, h.2]
  simp [hne]

/-- F-C16-4 (repaired in the repository): with the OLD rule — count the points of the whole line —
the first atom `A.B.` / `C.` (three points in its names, no velocities written) is taken for a line
with velocities; with the rule in the source now it is not. -/
theorem gro_detect_old_rule_witness :
    (groDetect { gro with countFrom := 0 }
      (groLine gro 1 { exAtom with resname := some "A.B.".toList, atomname := some "C.".toList, resid := some 1 })).hasVel
      = true ∧
    (groDetect gro
      (groLine gro 1 { exAtom with resname := some "A.B.".toList, atomname := some "C.".toList, resid := some 1 })).hasVel
      = false := by
  decide +kernel

/-! ## the atom line -/

def specAtGro (sl : RSlice) : Spec :=
  (covers groFmt sl.name sl.start sl.stop).getD ⟨' ', .dflt, 0, 0, .s, false⟩

theorem gro_slices_ok : (groSlices 8).all (fun sl =>
    decide (covers groFmt sl.name sl.start sl.stop = some (specAtGro sl)) && decide ((specAtGro sl).fill = ' ') &&
    kindOkB (specAtGro sl) sl.ty (atomKind sl.name)) = true := by
  decide

/-- **field_roundtrip, whole GRO atom line**: the columns `read_gro` uses return residue number,
residue name, atom name, atom number and coordinates exactly as written when they fit -/
theorem gro_record_roundtrip (serial : Nat) (a : Atom)
    (hfit : ∀ sl ∈ groSlices 8, fitsField (specAtGro sl) (atomEnv serial a sl.name)) :
    readFields readFieldGro (groLine gro serial a) (groSlices 8) =
      .ok [(.resid, .int (a.resid.getD 1)), (.resname, .str (a.resname.getD [])),
           (.atomname, .str (a.atomname.getD [])), (.atomid, .int serial),
           (.x, .dec a.x 3), (.y, .dec a.y 3), (.z, .dec a.z 3)] := by
  have h := (fields_roundtrip groFmt (atomEnv serial a) atom_fmt_allTrunc.2.2 (groSlices 8) specAtGro
    (by
      intro sl hsl
      have hok := List.all_eq_true.mp gro_slices_ok sl hsl
      simp only [Bool.and_eq_true, decide_eq_true_eq] at hok
      exact ⟨hok.1.1, hok.1.2, kindOk_atomEnv _ _ _ _ _ hok.2, hfit sl hsl⟩)).2
  exact h

/-- the atom `read_gro` must return -/
def gAtomOf (serial : Nat) (a : Atom) : GAtom :=
  { resid := a.resid.getD 1, resname := a.resname.getD [], atomname := a.atomname.getD [], atomid := serial,
    x := (a.x, 3), y := (a.y, 3), z := (a.z, 3),
    element := ((a.atomname.getD []).find? isAsciiLetter).getD ' ' }

/-- one atom fits its GRO line: values within their columns, a letter in the atom name (the reader
derives the element from it), residue name not excluded.  Points in the names are fine. -/
def groAtomFitsB (excl : List (List Char)) (serial : Nat) (a : Atom) : Bool :=
  (groSlices 8).all (fun sl => fitsFieldB (specAtGro sl) (atomEnv serial a sl.name)) &&
  ((a.atomname.getD []).find? isAsciiLetter).isSome &&
  !(excl.contains (a.resname.getD []))

theorem gro_line_parse (excl : List (List Char)) (serial : Nat) (a : Atom) (n idx : Nat)
    (h : groAtomFitsB excl serial a = true) :
    groParseLine excl false ⟨groSlices 8, false⟩ n idx (groLine gro serial a) = .ok (.keep (gAtomOf serial a)) := by
  unfold groAtomFitsB at h
  simp only [Bool.and_eq_true, Bool.not_eq_true', List.all_eq_true] at h
  obtain ⟨⟨hfit, hlet⟩, hex⟩ := h
  have hr := gro_record_roundtrip serial a (fun sl hsl => fitsFieldB_iff _ _ (hfit sl hsl))
  unfold groParseLine
  simp only [hr]
  cases hf : (a.atomname.getD []).find? isAsciiLetter with
  | none => rw [hf] at hlet; simp at hlet
  | some c =>
    have hex' : a.resname.getD [] ∉ excl := by
      intro hmem
      have : excl.contains (a.resname.getD []) = true := by simpa using hmem
      rw [this] at hex; cases hex
    simp [Props.str, Props.int, Props.dec, Props.get, List.find?, firstAlpha, hf, hex', gAtomOf, bind, Except.bind,
      pure, Except.pure]

/-! ## the file -/

def serialPairs (start : Nat) : List Atom → List (Nat × Atom)
  | [] => []
  | a :: r => (start, a) :: serialPairs (start + 1) r

/-- the atoms of a system with the numbers `write_gro` gives them (no TER records here) -/
def groPairs (start : Nat) : List Mol → List (Nat × Atom)
  | [] => []
  | m :: ms => serialPairs start (sortedNodes m) ++ groPairs (start + m.atoms.length) ms

theorem groAtomLines_eq (G : GroLayout) : ∀ (l : List Atom) (start : Nat),
    groAtomLines G start l = (serialPairs start l).map fun p => groLine G p.1 p.2
  | [], _ => rfl
  | a :: r, start => by simp [groAtomLines, serialPairs, groAtomLines_eq G r (start + 1)]

theorem writeGro_eq (G : GroLayout) : ∀ (sys : List Mol) (start : Nat),
    groMolLines G start sys = (groPairs start sys).map fun p => groLine G p.1 p.2
  | [], _ => rfl
  | m :: ms, start => by simp [groMolLines, groPairs, groAtomLines_eq, writeGro_eq G ms]

/-- **the precondition of the GRO round trip**: at least one atom, every atom fits its line -/
def FitsGro (excl : List (List Char)) (sys : List Mol) : Bool :=
  !(groPairs 1 sys).isEmpty && (groPairs 1 sys).all fun p => groAtomFitsB excl p.1 p.2

theorem groLoop_pairs (excl : List (List Char)) (n : Nat) (tail : List (List Char))
    (htail : tail = [] ∨ ∃ b t, tail = b :: t ∧ (readFields readFieldGro b (groSlices 8)).toOption = none) :
    ∀ (ps : List (Nat × Atom)) (idx : Nat), (∀ p ∈ ps, groAtomFitsB excl p.1 p.2 = true) → idx + ps.length = n →
      groLoop excl false ⟨groSlices 8, false⟩ n idx (ps.map (fun p => groLine gro p.1 p.2) ++ tail) =
        .ok (ps.map fun p => gAtomOf p.1 p.2)
  | [], idx, _, hn => by
      rcases htail with h | ⟨b, t, h, hnone⟩
      · subst h; rfl
      · subst h
        obtain ⟨e, herr⟩ : ∃ e, readFields readFieldGro b (groSlices 8) = .error e := by
          cases hr : readFields readFieldGro b (groSlices 8) with
          | error e => exact ⟨e, rfl⟩
          | ok v => rw [hr] at hnone; cases hnone
        simp only [List.map_nil, List.nil_append, groLoop, groParseLine, herr]
        have : idx = n := by simpa using hn
        simp [this, bind, Except.bind, pure, Except.pure]
  | p :: ps, idx, h, hn => by
      simp only [List.map_cons, List.cons_append, groLoop]
      rw [gro_line_parse excl p.1 p.2 n idx (h p (by simp))]
      have ih := groLoop_pairs excl n tail htail ps (idx + 1) (fun q hq => h q (by simp [hq]))
        (by simp only [List.length_cons] at hn; omega)
      simp only [bind, Except.bind, pure, Except.pure, ih]

/-- **whole-file GRO round trip.**  For every system that `FitsGro`, the file `write_gro` produces
(title line, atom count, one line per atom in `sorted_nodes` order, then nothing or a line that is
not an atom line, i.e. the box) is read back by `read_gro` — which first detects the coordinate
width on the first atom line — as exactly the atoms written, in order, each with residue number,
residue name, atom name, atom number and coordinates on the 0.001 nm grid. -/
theorem gro_file_roundtrip (excl : List (List Char)) (sys : List Mol) (title : List Char)
    (tail : List (List Char)) (hfits : FitsGro excl sys = true)
    (htail : tail = [] ∨ ∃ b t, tail = b :: t ∧ (readFields readFieldGro b (groSlices 8)).toOption = none) :
    readGro gro excl false (title :: natDigits (writeGro gro sys).length :: (writeGro gro sys ++ tail)) =
      .ok ((groPairs 1 sys).map fun p => gAtomOf p.1 p.2) := by
  unfold FitsGro at hfits
  simp only [Bool.and_eq_true, Bool.not_eq_true', List.isEmpty_eq_false_iff, List.all_eq_true] at hfits
  obtain ⟨hne, hall⟩ := hfits
  have hw : writeGro gro sys = (groPairs 1 sys).map fun p => groLine gro p.1 p.2 := writeGro_eq gro sys 1
  rw [hw]
  cases hps : groPairs 1 sys with
  | nil => exact absurd hps hne
  | cons p ps =>
    rw [hps] at hall
    have hp := hall p (by simp)
    obtain ⟨d1, d2⟩ := gro_detect p.1 p.2
    have hdet : groDetect gro (groLine gro p.1 p.2) = ⟨groSlices 8, false⟩ := by
      cases hd : groDetect gro (groLine gro p.1 p.2) with
      | mk sl hv => rw [hd] at d1 d2; simp only at d1 d2; rw [d1, d2]
    simp only [List.map_cons, List.cons_append, readGro]
    rw [strip_of_no_ws _ (natDigits_no_ws _), parseInt_natDigits]
    have hneg : ¬ (((List.length (groLine gro p.1 p.2 :: List.map (fun p => groLine gro p.1 p.2) ps) : Nat) : Int) < 0) := by
      omega
    simp only [hneg, if_false, hdet, Int.toNat_natCast]
    have := groLoop_pairs excl (List.length (groLine gro p.1 p.2 :: List.map (fun p => groLine gro p.1 p.2) ps))
      tail htail (p :: ps) 0 hall (by simp)
    simpa using this

/-- the box line `write_gro` writes by default is not an atom line -/
example : (readFields readFieldGro ['0', ' ', '0', ' ', '0'] (groSlices 8)).toOption = none := by
  decide +kernel

example : FitsGro [] [ { atoms := [exB, exA], edges := [] }, { atoms := [], edges := [] },
                       { atoms := [exC], edges := [] } ] = true := by
  have h1 : sortedNodes { atoms := [exB, exA], edges := [] } = [exB, exA] := by
    simp [sortedNodes, List.mergeSort, List.MergeSort.Internal.splitInTwo, atomidLe, exA, exB, exAtom]
  have h2 : sortedNodes { atoms := [], edges := [] } = [] := by simp [sortedNodes]
  have h3 : sortedNodes { atoms := [exC], edges := [] } = [exC] := by simp [sortedNodes]
  simp only [FitsGro, groPairs, h1, h2, h3]
  decide +kernel

end C16
