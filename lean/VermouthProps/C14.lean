import VermouthModel.C14
namespace C14
end C14
