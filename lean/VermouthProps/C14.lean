import VermouthProofs.C14
import VermouthProofs.C14_Groups
import VermouthProofs.Iso
/-!
# C14 — every unrecognised atom is explained by a known modification or reported

Property theorems about the model `VermouthModel/C14.lean` of
`vermouth/processors/canonicalize_modifications.py` (DESIGN 5.14).

Vocabulary
* `findPtmGroups m`            : `find_ptm_atoms` — list of `(atoms, anchors)`;
* `refPlacements res edges md ptmPred` : all induced placements of the modification `md` in the residue,
                                 by the verified reference matcher `Iso.allIsosP` under the node predicate of
                                 `ptm_node_matcher` (a placement lists `(residue node, modification node)`);
* `coverGraph np n tc frs`     : `_cover_graph(graph, to_cover = tc, fragments = frs)` with `np` the non-PTM nodes
                                 of `graph`, fuel `n`; `Frag = (modification index, candidate placements in matcher order)`;
* `coverGraphOld`              : the recursion before the repair of F-C14-1;
* `IsExactCover np tc frs c` (`Prop`) : `c` consists of candidates, stays inside `np ∪ tc`, covers every atom of `tc`,
                                 and two chosen placements overlap in non-PTM atoms only;
* `step`, `fixPtm`             : one iteration of the loop of `fix_ptm` / the whole function.
-/
namespace C14
open Iso

/-! ## find_ptm_atoms -/

/-- Every atom that is flagged `PTM_atom` (or already carries `modifications`) is in exactly one
group, exactly once, and the groups contain nothing else: the concatenated atom lists of the
groups are a rearrangement of the extra atoms. -/
theorem groups_partition (m : Mol) (hk : m.keys.Nodup) :
    ((findPtmGroups m).flatMap (·.1)).Perm m.extra
    ∧ ((findPtmGroups m).flatMap (·.1)).Nodup
    ∧ (∀ a, a ∈ m.extra ↔ ∃ g ∈ findPtmGroups m, a ∈ g.1)
    ∧ (∀ a ∈ m.extra, ((findPtmGroups m).flatMap (·.1)).count a = 1) := by
  have hnd := extra_nodup m hk
  have hp : ((findPtmGroups m).flatMap (·.1)).Perm m.extra :=
    findGroups_perm (adjOf m.edges) (traverseFuel m) (by unfold traverseFuel; omega) _ _ hnd (Nat.le_refl _)
  have hnd2 : ((findPtmGroups m).flatMap (·.1)).Nodup := hp.nodup_iff.2 hnd
  refine ⟨hp, hnd2, ?_, ?_⟩
  · intro a
    rw [← hp.mem_iff]
    simp [List.mem_flatMap]
  · intro a ha
    have h1 : ((findPtmGroups m).flatMap (·.1)).count a ≤ 1 := List.nodup_iff_count.1 hnd2 a
    have h2 : 0 < ((findPtmGroups m).flatMap (·.1)).count a := List.count_pos_iff.2 (hp.mem_iff.2 ha)
    omega

/-- the flagged atoms are extra atoms (so `groups_partition` speaks about each of them) -/
theorem flagged_is_extra (m : Mol) (a : Atom) (ha : a ∈ m.atoms) (hf : a.ptm = true) : a.key ∈ m.extra := by
  unfold Mol.extra
  exact List.mem_map.2 ⟨a, List.mem_filter.2 ⟨ha, by simp [isExtra, hf]⟩, rfl⟩

/-! ## candidate placements: induced, anchors by name, added atoms by element -/

/-- reading of `ptm_node_matcher`: both nodes exist, their `PTM_atom` flags agree, PTM atoms have equal
elements, anchors have equal atom names -/
theorem ptmPred_spec (res : List Atom) (md : Modif) (p t : Int) :
    ptmPred res md p t = true ↔
      ∃ mp rt, md.atom? p = some mp ∧ res.find? (fun a => a.key == t) = some rt ∧ rt.ptm = mp.ptm
        ∧ (mp.ptm = true → elemOf rt.attrs = elemOf mp.attrs)
        ∧ (mp.ptm = false → nameOf rt.attrs = nameOf mp.attrs) := by
  unfold ptmPred
  cases h1 : md.atom? p with
  | none => simp
  | some mp =>
    cases h2 : res.find? (fun a => a.key == t) with
    | none => simp
    | some rt =>
      cases hp : mp.ptm <;> simp [hp]

/-- Every reference placement is an induced subgraph isomorphism of the modification into the
residue under `ptm_node_matcher` (all modification nodes are mapped, distinct nodes to distinct
nodes, edges to edges and non-edges to non-edges), and every such isomorphism is found. -/
theorem refPlacements_spec (res : List Atom) (edges : List (Int × Int)) (md : Modif)
    (hmd : (modGraph md).keys.Nodup) (p : Placement) :
    p ∈ refPlacements res edges md ptmPred ↔
      ∃ f : Iso.Map, p = toPlacement f ∧ f.map Prod.fst = (modGraph md).keys
        ∧ IsIndIsoP (toGraph (res.map (·.key)) edges) (modGraph md) (ptmPred res md) (Map.toFun f) := by
  unfold refPlacements
  simp only [List.mem_map]
  constructor
  · rintro ⟨f, hf, rfl⟩
    exact ⟨f, rfl, (mem_allIsosP_iff _ _ _ hmd f).1 hf⟩
  · rintro ⟨f, rfl, h1, h2⟩
    exact ⟨f, (mem_allIsosP_iff _ _ _ hmd f).2 ⟨h1, h2⟩, rfl⟩

theorem mem_of_sameSet {a b : List Placement} (h : sameSet a b = true) (p : Placement) : p ∈ a ↔ p ∈ b := by
  unfold sameSet at h
  simp only [Bool.and_eq_true, List.all_eq_true, List.contains_iff_mem] at h
  exact ⟨fun hp => by simpa using h.1.1 p hp, fun hp => by simpa using h.1.2 p hp⟩

/-- When the recorded candidate lists pass `candsOk`, a fragment handed to `_cover_graph` holds
exactly the reference placements of its modification. -/
theorem candsOk_spec (res : List Atom) (edges : List (Int × Int)) (mods : List Modif)
    (given : List (List Placement)) (h : candsOk res edges mods given = true)
    (f : Frag) (hf : f ∈ (allowed res edges mods).zip given) (p : Placement) :
    p ∈ f.2 ↔ p ∈ refPlacements res edges (modAt mods f.1) ptmPred := by
  unfold candsOk at h
  simp only [Bool.and_eq_true, List.all_eq_true] at h
  exact mem_of_sameSet (h.2 f hf) p

/-! ## _cover_graph -/

/-- `cover_sound`: every chosen placement is one of the candidates of the fragment it is attributed to
(hence, by `candsOk_spec` and `refPlacements_spec`, induced, anchors by name, PTM atoms by element). -/
theorem cover_sound (np : List Int) (n : Nat) (tc : List Int) (frs : List Frag) (c : Cover)
    (h : coverGraph np n tc frs = .ok c) : ∀ e ∈ c, ∃ f ∈ frs, f.1 = e.1 ∧ e.2 ∈ f.2 :=
  (coverWith_exact usable_inside np n tc frs c h).cand

/-- `cover_exact`: a returned cover places every atom that was to be covered in at least one chosen
placement; every atom that is not a non-PTM atom of the residue (i.e. every PTM atom) in at most one
— so each to-be-covered PTM atom in exactly one; and no placement uses anything but non-PTM atoms
of the residue and atoms that were to be covered. -/
theorem cover_exact (np : List Int) (n : Nat) (tc : List Int) (frs : List Frag) (c : Cover)
    (h : coverGraph np n tc frs = .ok c) :
    (∀ a ∈ tc, ∃ e ∈ c, a ∈ patoms e.2)
    ∧ (c.Pairwise fun e e' => ∀ a, a ∈ patoms e.2 → a ∈ patoms e'.2 → a ∈ np)
    ∧ (∀ e ∈ c, ∀ a ∈ patoms e.2, a ∈ np ∨ a ∈ tc) :=
  let x := coverWith_exact usable_inside np n tc frs c h
  ⟨x.covers, x.disjoint, x.inside⟩

theorem countP_le_one_of_pairwise {α} {l : List α} {q : α → Bool}
    (h : l.Pairwise fun x y => ¬ (q x = true ∧ q y = true)) : l.countP q ≤ 1 := by
  induction l with
  | nil => simp
  | cons x l ih =>
    rw [List.pairwise_cons] at h
    rw [List.countP_cons]
    by_cases hx : q x = true
    · have : l.countP q = 0 := by
        rw [List.countP_eq_zero]
        intro y hy hqy
        exact h.1 y hy ⟨hx, hqy⟩
      simp [hx, this]
    · have := ih h.2
      simp [hx]; omega

/-- `cover_exact`, counting form: a to-be-covered atom that is a PTM atom is in exactly one chosen placement. -/
theorem cover_exact_count (np : List Int) (n : Nat) (tc : List Int) (frs : List Frag) (c : Cover)
    (h : coverGraph np n tc frs = .ok c) (a : Int) (ha : a ∈ tc) (hp : a ∉ np) :
    c.countP (fun e => (patoms e.2).contains a) = 1 := by
  obtain ⟨h1, h2, _⟩ := cover_exact np n tc frs c h
  have hle : c.countP (fun e => (patoms e.2).contains a) ≤ 1 := by
    apply countP_le_one_of_pairwise
    refine h2.imp ?_
    intro e e' hee ⟨he, he'⟩
    exact hp (hee a (by simpa using he) (by simpa using he'))
  have hpos : 0 < c.countP (fun e => (patoms e.2).contains a) := by
    rw [List.countP_pos_iff]
    obtain ⟨e, he, hae⟩ := h1 a ha
    exact ⟨e, he, by simpa using hae⟩
  omega

/-- `cover_complete`: with the fuel the code effectively has, the search answers `KeyError` only if no
exact cover exists among the candidate placements — handing `fragments[idx:]` to the recursion does not
lose covers, because the members of a cover can be applied in fragment order. -/
theorem cover_complete (np tc : List Int) (frs : List Frag)
    (h : coverGraph np tc.length tc frs = .keyError) : ¬ ∃ C, IsExactCover np tc frs C := by
  intro hC
  obtain ⟨c, hc⟩ := coverGraph_complete np tc.length tc frs (Nat.le_refl _) hC
  rw [hc] at h
  cases h

/-- ... and conversely a returned cover is an exact cover: the search succeeds iff one exists. -/
theorem cover_iff (np tc : List Int) (frs : List Frag) :
    (∃ c, coverGraph np tc.length tc frs = .ok c) ↔ ∃ C, IsExactCover np tc frs C :=
  ⟨fun ⟨c, hc⟩ => ⟨c, coverWith_exact usable_inside np _ tc frs c hc⟩,
   coverGraph_complete np tc.length tc frs (Nat.le_refl _)⟩

/-- `cover_terminates`: the recursion strictly decreases `to_cover`; fuel `to_cover.length` (or more) is
never exhausted, whatever the candidates are — no hypothesis on the fragments is needed any more. -/
theorem cover_terminates (np : List Int) (n : Nat) (tc : List Int) (frs : List Frag) (h : tc.length ≤ n) :
    coverGraph np n tc frs ≠ .outOfFuel :=
  coverWith_fuel usable_progress np n tc frs h

/-! ## witnesses -/

/-- the input of F-C14-1: residue CA (node 0) with one unknown flagged atom (node 1); the only
modification consists of the anchor CA alone, its only placement is `{0}` -/
def w1Frags : List Frag := [(0, [[(0, 0)]])]

/-- `cover_diverges_witness`: BEFORE the repair (`matching <= available` only) the placement `{0}` is
accepted although it covers nothing that is still to be covered, the recursive call gets the same
`to_cover` again (`minus [1] {0} = [1]`), and every amount of fuel is exhausted: the real code ended in
RecursionError. -/
theorem cover_diverges_witness :
    minus [1] [(0, 0)] = [1] ∧ ∀ n, coverGraphOld [0] n [1] w1Frags = .outOfFuel := by
  refine ⟨by decide, ?_⟩
  intro n
  induction n with
  | zero => rfl
  | succ n ih =>
    have h : minus [1] [((0 : Int), (0 : Int))] = [1] := by decide
    simp only [coverGraphOld, coverWith, w1Frags, tryFrags, tryMatches, usableOld] at ih ⊢
    simp [patoms, h, ih]

/-- the same input with the code as it is now: no cover, `KeyError`, i.e. removal + warning -/
example : coverGraph [0] 2 [1, 0] w1Frags = .keyError := by decide

/-- backtracking is needed and works: the first placement of the larger modification leaves atom 3
uncoverable, the second one is completed by the smaller modification -/
example : coverGraph [0] 4 [1, 2, 3, 0]
    [(0, [[(0, 0), (1, 1), (2, 2)], [(0, 0), (2, 1), (3, 2)]]), (1, [[(0, 0), (1, 1)]])]
    = .ok [(0, [(0, 0), (2, 1), (3, 2)]), (1, [(0, 0), (1, 1)])] := by decide

/-- a sub-pattern after its super-pattern: the larger modification is preferred, the smaller one
covers the rest (`fragments[idx:]` keeps the current fragment available) -/
example : coverGraph [0, 5] 4 [1, 2, 3, 0, 5]
    [(0, [[(0, 0), (1, 1), (2, 2)]]), (1, [[(0, 0), (1, 1)], [(5, 0), (3, 1)]])]
    = .ok [(0, [(0, 0), (1, 1), (2, 2)]), (1, [(5, 0), (3, 1)])] := by decide

/-- `IsExactCover` is satisfiable and refutable -/
example : IsExactCover [0] [1, 0] [(0, [[(0, 0), (1, 1)]])] [(0, [(0, 0), (1, 1)])] :=
  coverWith_exact usable_inside [0] 2 [1, 0] _ _ (by decide)

end C14
