import VermouthProofs.C14
import VermouthProofs.C14_Groups
import VermouthProofs.C14_Fix
import VermouthProofs.C14_Loop
import VermouthProofs.C14_Name
import VermouthProofs.C14_Closure
import VermouthProofs.Iso
/-!
# C14 — every unrecognised atom is explained by a known modification or reported

Property theorems about the model `VermouthModel/C14.lean` of
`vermouth/processors/canonicalize_modifications.py` (DESIGN 5.14).

Vocabulary
* `findPtmGroups m`            : `find_ptm_atoms` — list of `(atoms, anchors)`;
* `refPlacements res edges md ptmPred` : all induced placements of the modification `md` in the residue,
                                 by the verified reference matcher `Iso.allIsosP` under the node predicate of
                                 `ptm_node_matcher` (a placement lists `(residue node, modification node)`);
* `coverGraph np n tc frs`     : `_cover_graph(graph, to_cover = tc, fragments = frs)` with `np` the non-PTM nodes
                                 of `graph`, fuel `n`; `Frag = (modification index, candidate placements in matcher order)`;
* `coverGraphOld`              : the recursion before the repair of F-C14-1;
* `IsExactCover np tc frs c` (`Prop`) : `c` consists of candidates, stays inside `np ∪ tc`, covers every atom of `tc`,
                                 and two chosen placements overlap in non-PTM atoms only;
* `step`, `fixPtm`             : one iteration of the loop of `fix_ptm` / the whole function.
-/
namespace C14
open Iso

/-! ## find_ptm_atoms -/

/-- Every atom that is flagged `PTM_atom` (or already carries `modifications`) is in exactly one
group, exactly once, and the groups contain nothing else: the concatenated atom lists of the
groups are a rearrangement of the extra atoms. -/
theorem groups_partition (m : Mol) (hk : m.keys.Nodup) :
    ((findPtmGroups m).flatMap (·.1)).Perm m.extra
    ∧ ((findPtmGroups m).flatMap (·.1)).Nodup
    ∧ (∀ a, a ∈ m.extra ↔ ∃ g ∈ findPtmGroups m, a ∈ g.1)
    ∧ (∀ a ∈ m.extra, ((findPtmGroups m).flatMap (·.1)).count a = 1) := by
  have hnd := extra_nodup m hk
  have hp : ((findPtmGroups m).flatMap (·.1)).Perm m.extra :=
    findGroups_perm (adjOf m.edges) (traverseFuel m) (by unfold traverseFuel; omega) _ _ hnd (Nat.le_refl _)
  have hnd2 : ((findPtmGroups m).flatMap (·.1)).Nodup := hp.nodup_iff.2 hnd
  refine ⟨hp, hnd2, ?_, ?_⟩
  · intro a
    rw [← hp.mem_iff]
    simp [List.mem_flatMap]
  · intro a ha
    have h1 : ((findPtmGroups m).flatMap (·.1)).count a ≤ 1 := List.nodup_iff_count.1 hnd2 a
    have h2 : 0 < ((findPtmGroups m).flatMap (·.1)).count a := List.count_pos_iff.2 (hp.mem_iff.2 ha)
    omega

/-- the flagged atoms are extra atoms (so `groups_partition` speaks about each of them) -/
theorem flagged_is_extra (m : Mol) (a : Atom) (ha : a ∈ m.atoms) (hf : a.ptm = true) : a.key ∈ m.extra := by
  unfold Mol.extra
  exact List.mem_map.2 ⟨a, List.mem_filter.2 ⟨ha, by simp [isExtra, hf]⟩, rfl⟩

/-- `traversal_complete`: the fuel the model gives the inner loop of `find_ptm_atoms` (`2 |E| + 2`) is
enough for the worklist to run empty.  Hence every group is closed — an extra atom bonded to an atom of
a group is in that group — and every anchor is a non-extra atom bonded to an atom of its group. -/
theorem traversal_complete (m : Mol) (hk : m.keys.Nodup) :
    ∀ g ∈ findPtmGroups m,
      (∀ a ∈ g.1, a ∈ m.extra)
      ∧ (∀ y ∈ g.1, ∀ x ∈ adjOf m.edges y, x ∈ m.extra → x ∈ g.1)
      ∧ (∀ x ∈ g.2, x ∉ m.extra ∧ ∃ y ∈ g.1, x ∈ adjOf m.edges y) := by
  intro g hg
  have hnd := extra_nodup m hk
  have hfuel : adjSum (adjOf m.edges) m.extra + 1 ≤ traverseFuel m := by
    have := adjSum_adjOf_le m.edges m.extra hnd
    unfold traverseFuel
    omega
  obtain ⟨h1, h2⟩ := findGroups_ok (adjOf m.edges) (fun x y h => adjOf_symm h) (traverseFuel m)
    m.extra.length m.extra hnd hfuel g hg
  exact ⟨h1, h2.closed, h2.anchors⟩

/-! ## candidate placements: induced, anchors by name, added atoms by element -/

/-- reading of `ptm_node_matcher`: both nodes exist, their `PTM_atom` flags agree, PTM atoms have equal
elements, anchors have equal atom names -/
theorem ptmPred_spec (res : List Atom) (md : Modif) (p t : Int) :
    ptmPred res md p t = true ↔
      ∃ mp rt, md.atom? p = some mp ∧ res.find? (fun a => a.key == t) = some rt ∧ rt.ptm = mp.ptm
        ∧ (mp.ptm = true → elemOf rt.attrs = elemOf mp.attrs)
        ∧ (mp.ptm = false → nameOf rt.attrs = nameOf mp.attrs) := by
  unfold ptmPred
  cases h1 : md.atom? p with
  | none => simp
  | some mp =>
    cases h2 : res.find? (fun a => a.key == t) with
    | none => simp
    | some rt =>
      cases hp : mp.ptm <;> simp [hp]

/-- Every reference placement is an induced subgraph isomorphism of the modification into the
residue under `ptm_node_matcher` (all modification nodes are mapped, distinct nodes to distinct
nodes, edges to edges and non-edges to non-edges), and every such isomorphism is found. -/
theorem refPlacements_spec (res : List Atom) (edges : List (Int × Int)) (md : Modif)
    (hmd : (modGraph md).keys.Nodup) (p : Placement) :
    p ∈ refPlacements res edges md ptmPred ↔
      ∃ f : Iso.Map, p = toPlacement f ∧ f.map Prod.fst = (modGraph md).keys
        ∧ IsIndIsoP (toGraph (res.map (·.key)) edges) (modGraph md) (ptmPred res md) (Map.toFun f) := by
  unfold refPlacements
  simp only [List.mem_map]
  constructor
  · rintro ⟨f, hf, rfl⟩
    exact ⟨f, rfl, (mem_allIsosP_iff _ _ _ hmd f).1 hf⟩
  · rintro ⟨f, rfl, h1, h2⟩
    exact ⟨f, (mem_allIsosP_iff _ _ _ hmd f).2 ⟨h1, h2⟩, rfl⟩

theorem mem_of_sameSet {a b : List Placement} (h : sameSet a b = true) (p : Placement) : p ∈ a ↔ p ∈ b := by
  unfold sameSet at h
  simp only [Bool.and_eq_true, List.all_eq_true, List.contains_iff_mem] at h
  exact ⟨fun hp => by simpa using h.1.1 p hp, fun hp => by simpa using h.1.2 p hp⟩

/-- When the recorded candidate lists pass `candsOk`, a fragment handed to `_cover_graph` holds
exactly the reference placements of its modification. -/
theorem candsOk_spec (res : List Atom) (edges : List (Int × Int)) (mods : List Modif)
    (given : List (List Placement)) (h : candsOk res edges mods given = true)
    (f : Frag) (hf : f ∈ (allowed res edges mods).zip given) (p : Placement) :
    p ∈ f.2 ↔ p ∈ refPlacements res edges (modAt mods f.1) ptmPred := by
  unfold candsOk at h
  simp only [Bool.and_eq_true, List.all_eq_true] at h
  exact mem_of_sameSet (h.2 f hf) p

/-! ## _cover_graph -/

/-- `cover_sound`: every chosen placement is one of the candidates of the fragment it is attributed to
(hence, by `candsOk_spec` and `refPlacements_spec`, induced, anchors by name, PTM atoms by element). -/
theorem cover_sound (np : List Int) (n : Nat) (tc : List Int) (frs : List Frag) (c : Cover)
    (h : coverGraph np n tc frs = .ok c) : ∀ e ∈ c, ∃ f ∈ frs, f.1 = e.1 ∧ e.2 ∈ f.2 :=
  (coverWith_exact usable_inside np n tc frs c h).cand

/-- `cover_exact`: a returned cover places every atom that was to be covered in at least one chosen
placement; every atom that is not a non-PTM atom of the residue (i.e. every PTM atom) in at most one
— so each to-be-covered PTM atom in exactly one; and no placement uses anything but non-PTM atoms
of the residue and atoms that were to be covered. -/
theorem cover_exact (np : List Int) (n : Nat) (tc : List Int) (frs : List Frag) (c : Cover)
    (h : coverGraph np n tc frs = .ok c) :
    (∀ a ∈ tc, ∃ e ∈ c, a ∈ patoms e.2)
    ∧ (c.Pairwise fun e e' => ∀ a, a ∈ patoms e.2 → a ∈ patoms e'.2 → a ∈ np)
    ∧ (∀ e ∈ c, ∀ a ∈ patoms e.2, a ∈ np ∨ a ∈ tc) :=
  let x := coverWith_exact usable_inside np n tc frs c h
  ⟨x.covers, x.disjoint, x.inside⟩

/-- `cover_exact`, counting form: a to-be-covered atom that is a PTM atom is in exactly one chosen placement. -/
theorem cover_exact_count (np : List Int) (n : Nat) (tc : List Int) (frs : List Frag) (c : Cover)
    (h : coverGraph np n tc frs = .ok c) (a : Int) (ha : a ∈ tc) (hp : a ∉ np) :
    c.countP (fun e => (patoms e.2).contains a) = 1 :=
  cover_exact_count_aux np n tc frs c h a ha hp

/-- `cover_complete`: with the fuel the code effectively has, the search answers `KeyError` only if no
exact cover exists among the candidate placements — handing `fragments[idx:]` to the recursion does not
lose covers, because the members of a cover can be applied in fragment order. -/
theorem cover_complete (np tc : List Int) (frs : List Frag)
    (h : coverGraph np tc.length tc frs = .keyError) : ¬ ∃ C, IsExactCover np tc frs C := by
  intro hC
  obtain ⟨c, hc⟩ := coverGraph_complete np tc.length tc frs (Nat.le_refl _) hC
  rw [hc] at h
  cases h

/-- ... and conversely a returned cover is an exact cover: the search succeeds iff one exists. -/
theorem cover_iff (np tc : List Int) (frs : List Frag) :
    (∃ c, coverGraph np tc.length tc frs = .ok c) ↔ ∃ C, IsExactCover np tc frs C :=
  ⟨fun ⟨c, hc⟩ => ⟨c, coverWith_exact usable_inside np _ tc frs c hc⟩,
   coverGraph_complete np tc.length tc frs (Nat.le_refl _)⟩

/-- `cover_terminates`: the recursion strictly decreases `to_cover`; fuel `to_cover.length` (or more) is
never exhausted, whatever the candidates are — no hypothesis on the fragments is needed any more. -/
theorem cover_terminates (np : List Int) (n : Nat) (tc : List Int) (frs : List Frag) (h : tc.length ≤ n) :
    coverGraph np n tc frs ≠ .outOfFuel :=
  coverWith_fuel usable_progress np n tc frs h

/-! ## identify_ptms and one iteration of fix_ptm -/

/-- `identify_ptms` on the groups of one iteration.  If it returns, every atom of every group is in a
chosen placement, and an atom of a group without annotations from the input (`usedOf annot g = []`:
the ordinary case, all its atoms are flagged) that is not a non-PTM atom of the residue is in EXACTLY
one placement of the cover.  If it raises `KeyError`, every atom of every group without annotations
is in the set handed to removal + warning.  It never runs out of fuel. -/
theorem identify_spec (res : List Atom) (edges : List (Int × Int)) (mods : List Modif) (annot : Int → List Nat)
    (groups : List Group) (frags : List Frag) :
    match identify res edges mods annot groups frags with
    | .ok used cov =>
        (∀ g ∈ groups, ∀ a ∈ g.atoms, ∃ e ∈ used ++ cov, a ∈ patoms e.2)
        ∧ (∀ g ∈ groups, usedOf annot g = [] → ∀ a ∈ g.atoms, a ∉ nonPtm res →
            cov.countP (fun e => (patoms e.2).contains a) = 1)
        ∧ (∀ e ∈ cov, ∃ f ∈ frags, f.1 = e.1 ∧ e.2 ∈ f.2)
    | .keyError rm => ∀ g ∈ groups, usedOf annot g = [] → ∀ a ∈ g.atoms, a ∈ rm
    | .outOfFuel => False :=
  identify_spec_aux res edges mods annot groups frags

/-- One iteration of the loop of `fix_ptm`, for the groups `groups` with key `key`.  It ends in one of
two ways.
(removal) a warning naming the atoms `rm` of the groups is added, exactly the atoms of `rm` that are
flagged `PTM_atom` are removed (recognised atoms that merely carry an annotation stay), nothing else is
removed, and every atom of every group without input annotations is in `rm`;
(labelling) no atom is removed, no warning is added, every atom of every group is in a chosen
placement — for groups without input annotations in exactly one placement of the cover when it is a
PTM atom — and every atom of the residues of the key that is still in the molecule carries the
modification of every chosen placement in its `modifications`. -/
theorem step_label_or_remove (mods : List Modif) (orig : List Atom) (s : St) (key : List Int)
    (groups : List Group) (given : List (List Placement)) :
    let annot : Int → List Nat := fun k => ((orig.find? fun a => a.key == k).map (·.mods)).getD []
    let nIdxs := (orig.filter fun a => key.contains a.resid).map (·.key)
    let res := s.mol.atoms.filter fun a => nIdxs.contains a.key
    ∃ s', step mods orig s key groups given = .done s' ∧
      ((∃ rm l, s'.warnings = s.warnings ++ [rm] ∧ s'.removed = s.removed ++ rm.filter (isFlagged s.mol)
          ∧ s'.log = s.log ++ [l] ∧ l.result = none
          ∧ (∀ a, a ∈ s'.mol.keys ↔ a ∈ s.mol.keys ∧ ¬ (a ∈ rm ∧ isFlagged s.mol a = true))
          ∧ ∀ g ∈ groups, usedOf annot g = [] → ∀ a ∈ g.atoms, a ∈ rm)
      ∨ (∃ used cov l, s'.warnings = s.warnings ∧ s'.removed = s.removed
          ∧ s'.log = s.log ++ [l] ∧ l.result = some (used, cov)
          ∧ s'.mol.keys = s.mol.keys
          ∧ (∀ g ∈ groups, ∀ a ∈ g.atoms, ∃ e ∈ used ++ cov, a ∈ patoms e.2)
          ∧ (∀ g ∈ groups, usedOf annot g = [] → ∀ a ∈ g.atoms, a ∉ nonPtm res →
              cov.countP (fun e => (patoms e.2).contains a) = 1)
          ∧ ∀ b ∈ s'.mol.atoms, b.key ∈ nIdxs → ∀ e ∈ used ++ cov, e.1 ∈ b.mods)) := by
  intro annot nIdxs res
  have hspec := identify_spec res (induced (res.map (·.key)) s.mol.edges) mods annot groups
    ((allowed res (induced (res.map (·.key)) s.mol.edges) mods).zip given)
  unfold step
  simp only []
  cases hid : identify res (induced (res.map (·.key)) s.mol.edges) mods annot groups
      ((allowed res (induced (res.map (·.key)) s.mol.edges) mods).zip given) with
  | outOfFuel => rw [hid] at hspec; exact hspec.elim
  | keyError rm =>
    rw [hid] at hspec
    refine ⟨_, rfl, Or.inl ⟨rm, _, rfl, rfl, rfl, rfl, ?_, hspec⟩⟩
    intro a
    rw [mem_removeAtoms_keys, List.mem_filter]
  | ok used cov =>
    rw [hid] at hspec
    refine ⟨_, rfl, Or.inr ⟨used, cov, _, rfl, rfl, rfl, rfl, ?_, hspec.1, hspec.2.1, ?_⟩⟩
    · exact foldl_applyOne_keys mods nIdxs (used ++ cov) s.mol.atoms
    · intro b hb hin e he
      obtain ⟨_, _, _, _, hl⟩ := foldl_applyOne_spec mods nIdxs (used ++ cov) s.mol.atoms hb
      exact hl hin e he

/-- Whole-loop frame facts (used by `removal_is_reported`; the full statement is `label_or_remove`
below): the loop always returns, warnings are never dropped, atoms never reappear, and an atom that
disappears is named in a warning. -/
theorem loop_frame_facts (mods : List Modif) (orig : List Atom) :
    ∀ (its : List (List Int × List Group)) (s : St) (given : List (List (List Placement))),
      ∃ s', runIters mods orig s its given = .done s'
        ∧ (∀ w ∈ s.warnings, w ∈ s'.warnings)
        ∧ (∀ a ∈ s'.mol.keys, a ∈ s.mol.keys)
        ∧ (∀ a ∈ s.mol.keys, a ∉ s'.mol.keys → ∃ w ∈ s'.warnings, a ∈ w) := by
  intro its
  induction its with
  | nil =>
    intro s given
    exact ⟨s, rfl, fun w h => h, fun a h => h, fun a h hn => absurd h hn⟩
  | cons it its ih =>
    intro s given
    obtain ⟨key, groups⟩ := it
    obtain ⟨s1, hs1, hcase⟩ := step_label_or_remove mods orig s key groups (given.headD [])
    obtain ⟨s2, hs2, hw, hk, hr⟩ := ih s1 given.tail
    refine ⟨s2, ?_, ?_, ?_, ?_⟩
    · simp only [runIters, hs1, hs2]
    · intro w hwin
      apply hw
      rcases hcase with ⟨rm, l, h1, _⟩ | ⟨u, c, l, h1, _⟩
      · rw [h1]; exact List.mem_append_left _ hwin
      · rw [h1]; exact hwin
    · intro a ha
      have := hk a ha
      rcases hcase with ⟨rm, l, _, _, _, _, h5, _⟩ | ⟨u, c, l, _, _, _, _, h5, _⟩
      · exact ((h5 a).1 this).1
      · rw [h5] at this; exact this
    · intro a ha hna
      by_cases h1 : a ∈ s1.mol.keys
      · exact hr a h1 hna
      · rcases hcase with ⟨rm, l, hwarn, _, _, _, h5, _⟩ | ⟨u, c, l, _, _, _, _, h5, _⟩
        · have : a ∈ rm := by
            apply Classical.byContradiction
            intro hnr
            exact h1 ((h5 a).2 ⟨ha, fun h => hnr h.1⟩)
          exact ⟨rm, hw rm (by rw [hwarn]; simp), this⟩
        · rw [h5] at h1; exact absurd ha h1

/-- `fix_ptm` as a whole: it always returns; no atom disappears without a warning that names it (so
nothing is removed silently), and warnings are never dropped. -/
theorem removal_is_reported (m : Mol) (mods : List Modif) (given : List (List (List Placement))) :
    ∃ s, fixPtm m mods given = .done s
      ∧ (∀ a ∈ s.mol.keys, a ∈ m.keys)
      ∧ ∀ a ∈ m.keys, a ∉ s.mol.keys → ∃ w ∈ s.warnings, a ∈ w := by
  obtain ⟨s, hs, _, hk, hr⟩ := loop_frame_facts mods m.atoms (iterations m)
    { mol := m, removed := [], warnings := [], log := [] } given
  exact ⟨s, hs, hk, hr⟩

/-! ## the whole loop of fix_ptm -/

/-- what the property demands of an initially flagged atom `a` in the final state `s`: it is absent
and named in a warning, or it is present, lies in exactly one placement chosen by a cover search of
the whole run (`countIn`), and every surviving atom of the residues of that iteration's key lists
the modification of every placement chosen in that iteration. -/
def Explained (orig : List Atom) (a : Int) (s : St) : Prop :=
  (a ∉ s.mol.keys ∧ ∃ w ∈ s.warnings, a ∈ w)
  ∨ (a ∈ s.mol.keys ∧ countIn s.log a = 1 ∧
      ∃ l ∈ s.log, ∃ used cov, l.result = some (used, cov) ∧ (∃ e ∈ cov, a ∈ patoms e.2)
        ∧ ∀ b ∈ s.mol.atoms, b.key ∈ nIdxsOf orig l.key → ∀ e ∈ used ++ cov, e.1 ∈ b.mods)

theorem runIters_own (mods : List Modif) (orig : List Atom) (horig : (orig.map (·.key)).Nodup)
    {a0 : Atom} (ha0 : a0 ∈ orig) (hp : a0.ptm = true) :
    ∀ (its : List (List Int × List Group)) (s : St) (given : List (List (List Placement))),
      Inv orig s → a0.key ∈ s.mol.keys → countIn s.log a0.key = 0 →
      (atomsOf (its.flatMap (·.2))).Nodup →
      (∀ it ∈ its, ∀ g ∈ it.2, a0.key ∉ g.anchors) →
      (∃ it ∈ its, ∃ g ∈ it.2, usedOf (annotOf orig) g = [] ∧ a0.key ∈ g.atoms) →
      ∃ s' : St, runIters mods orig s its given = .done s' ∧ Explained orig a0.key s' := by
  intro its
  induction its with
  | nil =>
    intro s given _ _ _ _ _ hex
    obtain ⟨it, hit, _⟩ := hex
    simp at hit
  | cons it its ih =>
    intro s given hinv hin hcnt hnd hanch hex
    obtain ⟨key, groups⟩ := it
    have hsplit : atomsOf (((key, groups) :: its).flatMap (·.2)) = atomsOf groups ++ atomsOf (its.flatMap (·.2)) := by
      unfold atomsOf
      rw [List.flatMap_cons, List.flatMap_append]
    rw [hsplit, List.nodup_append] at hnd
    obtain ⟨_, hnd2, hdisj⟩ := hnd
    have mem_atomsOf : ∀ {gs : List Group} {g : Group} {x : Int}, g ∈ gs → x ∈ g.atoms → x ∈ atomsOf gs := by
      intro gs g x hg hx
      exact List.mem_flatMap.2 ⟨g, hg, hx⟩
    have not_allOf : ∀ (gs : List Group), a0.key ∉ atomsOf gs → (∀ g ∈ gs, a0.key ∉ g.anchors) → a0.key ∉ allOf gs := by
      intro gs h1 h2 h
      obtain ⟨g, hg, hx⟩ := List.mem_flatMap.1 h
      rcases List.mem_append.1 hx with h3 | h3
      · exact h1 (mem_atomsOf hg h3)
      · exact h2 g hg h3
    obtain ⟨s1, hs1, hinv1, hl1, hframe⟩ := step_frame mods orig s key groups (given.headD []) hinv
    by_cases hown : ∃ g ∈ groups, usedOf (annotOf orig) g = [] ∧ a0.key ∈ g.atoms
    · -- the iteration of `a0`
      obtain ⟨g0, hg0, hu0, hag0⟩ := hown
      have hrest : ∀ it ∈ its, a0.key ∉ allOf it.2 := by
        intro it hit
        apply not_allOf
        · intro h
          have h1 : a0.key ∈ atomsOf (its.flatMap (·.2)) := by
            obtain ⟨g, hg, hx⟩ := List.mem_flatMap.1 h
            exact List.mem_flatMap.2 ⟨g, List.mem_flatMap.2 ⟨it, hit, hg⟩, hx⟩
          exact hdisj _ (mem_atomsOf hg0 hag0) _ h1 rfl
        · exact fun g hg => hanch it (by simp [hit]) g hg
      obtain ⟨s2, hs2, _, hl2, hk2, hc2⟩ := runIters_other mods orig horig ha0 hp its s1 given.tail hinv1 hrest
      refine ⟨s2, by simp only [runIters, hs1, hs2], ?_⟩
      obtain ⟨s1', hs1', hcase⟩ := step_label_or_remove mods orig s key groups (given.headD [])
      rw [hs1] at hs1'
      cases hs1'
      rcases hcase with ⟨rm, l, hw, _, _, _, hkeys, hall⟩ | ⟨used, cov, l, _, _, hlog, hres, hkeys, _, hone, hlab⟩
      · left
        have harm : a0.key ∈ rm := hall g0 hg0 hu0 _ hag0
        refine ⟨?_, rm, hl2.warns rm (by rw [hw]; simp), harm⟩
        rw [hk2, hkeys]
        exact fun h => h.2 ⟨harm, (isFlagged_eq horig hinv ha0 hin).trans hp⟩
      · right
        have hnp := flagged_not_nonPtm horig hinv ha0 hp
          (fun a => ((orig.filter fun a => key.contains a.resid).map (·.key)).contains a.key)
        have h1 : cov.countP (fun e => (patoms e.2).contains a0.key) = 1 := hone g0 hg0 hu0 _ hag0 hnp
        have hlkey : l.key = key := by
          rcases hframe with ⟨_, l', hlog', _, _⟩ | ⟨_, _, l', hlog', _, hk', _⟩
          · rw [hlog] at hlog'
            have := List.append_cancel_left hlog'
            simp only [List.cons.injEq, and_true] at this
            subst this
            simp_all
          · rw [hlog] at hlog'
            have := List.append_cancel_left hlog'
            simp only [List.cons.injEq, and_true] at this
            subst this
            exact hk'
        refine ⟨?_, ?_, l, ?_, used, cov, hres, ?_, ?_⟩
        · rw [hk2, hkeys]; exact hin
        · rw [hc2, hlog, countIn_append, countIn_single, coverOf_some hres, hcnt, h1]
        · obtain ⟨ext, hext⟩ := hl2.log
          rw [hext, hlog]; simp
        · have : 0 < cov.countP (fun e => (patoms e.2).contains a0.key) := by omega
          obtain ⟨e, he, hcon⟩ := List.countP_pos_iff.1 this
          exact ⟨e, he, by simpa using hcon⟩
        · intro b hb hbn e he
          obtain ⟨b1, hb1, hkb, hmb⟩ := hl2.atoms b hb
          apply hmb
          apply hlab b1 hb1 _ e he
          rw [hkb]
          unfold nIdxsOf at hbn
          rw [hlkey] at hbn
          exact hbn
    · -- another iteration comes first
      have hex' : ∃ it ∈ its, ∃ g ∈ it.2, usedOf (annotOf orig) g = [] ∧ a0.key ∈ g.atoms := by
        obtain ⟨it, hit, g, hg, hu, hag⟩ := hex
        rcases List.mem_cons.1 hit with rfl | hit
        · exact absurd ⟨g, hg, hu, hag⟩ hown
        · exact ⟨it, hit, g, hg, hu, hag⟩
      have hnot : a0.key ∉ allOf groups := by
        apply not_allOf
        · intro h
          obtain ⟨it, hit, g, hg, _, hag⟩ := hex'
          have h1 : a0.key ∈ atomsOf (its.flatMap (·.2)) :=
            List.mem_flatMap.2 ⟨g, List.mem_flatMap.2 ⟨it, hit, hg⟩, hag⟩
          exact hdisj _ h _ h1 rfl
        · exact fun g hg => hanch (key, groups) (by simp) g hg
      obtain ⟨s1', hs1', _, _, hk1, hc1⟩ := runIters_other mods orig horig ha0 hp [(key, groups)] s given hinv
        (by intro it hit; simp at hit; subst hit; exact hnot)
      simp only [runIters, hs1] at hs1'
      cases hs1'
      obtain ⟨s2, hs2, hexp⟩ := ih s1 given.tail hinv1 (hk1.2 hin) (by rw [hc1]; exact hcnt) hnd2
        (fun it hit => hanch it (by simp [hit])) hex'
      exact ⟨s2, by simp only [runIters, hs1, hs2], hexp⟩

/-- `iterations_cover_groups`: sorting by anchor resids and `groupby` handle every group in exactly one
iteration — the groups of all iterations, concatenated, are a rearrangement of the groups. -/
theorem iterations_cover_groups (m : Mol) : ((iterations m).flatMap (·.2)).Perm (groupsOf m) :=
  iterations_perm m

/-- no anchor of a group is itself an extra atom (proved below from `traversal_complete`) -/
def AnchorsNotExtra (m : Mol) : Prop := ∀ g ∈ findPtmGroups m, ∀ x ∈ g.2, x ∉ m.extra

instance (m : Mol) : Decidable (AnchorsNotExtra m) := by unfold AnchorsNotExtra; infer_instance

theorem anchors_not_extra (m : Mol) (hk : m.keys.Nodup) : AnchorsNotExtra m :=
  fun g hg x hx => ((traversal_complete m hk g hg).2.2 x hx).1

theorem dedupNat_eq_nil {l : List Nat} (h : dedupNat l = []) : l = [] := by
  cases l with
  | nil => rfl
  | cons a l => simp [dedupNat] at h

theorem annotOf_eq (orig : List Atom) (horig : (orig.map (·.key)).Nodup) {a0 : Atom} (ha0 : a0 ∈ orig) :
    annotOf orig a0.key = a0.mods := by
  unfold annotOf
  cases hf : orig.find? (fun a => a.key == a0.key) with
  | none =>
    have := List.find?_eq_none.1 hf a0 ha0
    simp at this
  | some x =>
    have hx : x ∈ orig := List.mem_of_find?_eq_some hf
    have hkx : x.key = a0.key := by simpa using List.find?_some hf
    have : x = a0 := eq_of_key_eq horig hx ha0 hkx
    simp [this]

/-- `label_or_remove` — the whole loop of `fix_ptm`.  `fix_ptm` returns, and every atom of every
group that carries no annotation from the input (the ordinary case; all such atoms are flagged
`PTM_atom`) is, in the final molecule, either absent and named in an unknown-input warning, or present,
in exactly one placement chosen by a cover search over the whole run (so never covered twice, never
left uncovered), with the modifications of all placements of that iteration listed in the
`modifications` of every surviving atom of the residues of the iteration's key.  Proof: `iterations_perm` (sort + groupby handle every group in exactly one iteration),
`groups_partition`, `anchors_not_extra`, `step_label_or_remove`, and the loop invariant of
`runIters_own` / `runIters_other` (an iteration removes only atoms of its own groups, its cover uses only
non-PTM atoms and atoms / anchors of its own groups, key / resid / PTM flag never change, `modifications`
only grow).  Per iteration the chosen placements are candidates of their fragments (`identify_spec`,
`cover_sound`: induced, anchors by name, PTM atoms by element when the lists pass `candsOk`) and applying
a placement renames as `rename_spec` / `rename_frame` say; the composition over the loop (final name,
`replace` attributes, candidate of its own iteration) is `label_or_remove_full` (`C14_Whole.lean`). -/
theorem label_or_remove (m : Mol) (mods : List Modif) (given : List (List (List Placement)))
    (hk : m.keys.Nodup) :
    ∃ s, fixPtm m mods given = .done s ∧
      ∀ g ∈ groupsOf m, usedOf (annotOf m.atoms) g = [] → ∀ a ∈ g.atoms, Explained m.atoms a s := by
  have hanch := anchors_not_extra m hk
  obtain ⟨s, hs, _, _⟩ := removal_is_reported m mods given
  refine ⟨s, hs, ?_⟩
  intro g hg hu a hag
  obtain ⟨hperm, hnd, hiff, _⟩ := groups_partition m hk
  have hflat : atomsOf (groupsOf m) = (findPtmGroups m).flatMap (·.1) := by
    unfold atomsOf groupsOf
    rw [List.flatMap_map]
  have haex : a ∈ m.extra := by
    rw [hiff a]
    obtain ⟨g', hg', rfl⟩ := List.mem_map.1 hg
    exact ⟨g', hg', hag⟩
  obtain ⟨a0, ha0f, rfl⟩ := List.mem_map.1 haex
  obtain ⟨ha0, hex0⟩ := List.mem_filter.1 ha0f
  have hmods : a0.mods = [] := by
    have h1 := dedupNat_eq_nil hu
    rw [List.flatMap_eq_nil_iff] at h1
    have := h1 _ hag
    rwa [annotOf_eq m.atoms hk ha0] at this
  have hp : a0.ptm = true := by
    simp only [isExtra, hmods, List.isEmpty_nil, Bool.not_true, Bool.or_false] at hex0
    exact hex0
  have hpermI := iterations_perm m
  have hnd' : (atomsOf ((iterations m).flatMap (·.2))).Nodup := by
    have : (atomsOf ((iterations m).flatMap (·.2))).Perm (atomsOf (groupsOf m)) := by
      unfold atomsOf
      exact List.Perm.flatMap_right _ hpermI
    rw [this.nodup_iff, hflat]
    exact hnd
  have hanch' : ∀ it ∈ iterations m, ∀ g ∈ it.2, a0.key ∉ g.anchors := by
    intro it hit g' hg'
    have : g' ∈ groupsOf m := hpermI.subset (List.mem_flatMap.2 ⟨it, hit, hg'⟩)
    obtain ⟨g'', hg'', rfl⟩ := List.mem_map.1 this
    exact fun hx => hanch g'' hg'' _ hx haex
  have hex : ∃ it ∈ iterations m, ∃ g ∈ it.2, usedOf (annotOf m.atoms) g = [] ∧ a0.key ∈ g.atoms := by
    obtain ⟨it, hit, hgi⟩ := List.mem_flatMap.1 (hpermI.symm.subset hg)
    exact ⟨it, hit, g, hgi, hu, hag⟩
  obtain ⟨s', hs', hexp⟩ := runIters_own mods m.atoms hk ha0 hp (iterations m)
    { mol := m, removed := [], warnings := [], log := [] } given
    (List.Sublist.refl _) (List.mem_map.2 ⟨a0, ha0, rfl⟩) rfl hnd' hanch' hex
  unfold fixPtm at hs
  rw [hs] at hs'
  cases hs'
  exact hexp

/-- the ordinary case spelled out: a molecule without annotations from `modify`; every flagged atom is
explained -/
theorem label_or_remove_flagged (m : Mol) (mods : List Modif) (given : List (List (List Placement)))
    (hk : m.keys.Nodup) (hno : ∀ b ∈ m.atoms, b.mods = []) :
    ∃ s, fixPtm m mods given = .done s ∧
      ∀ a0 ∈ m.atoms, a0.ptm = true → Explained m.atoms a0.key s := by
  obtain ⟨s, hs, hall⟩ := label_or_remove m mods given hk
  refine ⟨s, hs, ?_⟩
  intro a0 ha0 hp
  obtain ⟨_, _, hiff, _⟩ := groups_partition m hk
  obtain ⟨g', hg', hag⟩ := (hiff a0.key).1 (flagged_is_extra m a0 ha0 hp)
  refine hall ⟨g'.1, g'.2⟩ (List.mem_map.2 ⟨g', hg', rfl⟩) ?_ _ hag
  unfold usedOf
  have : (List.flatMap (annotOf m.atoms) g'.1) = [] := by
    rw [List.flatMap_eq_nil_iff]
    intro x _
    unfold annotOf
    cases hf : m.atoms.find? (fun a => a.key == x) with
    | none => rfl
    | some y => simp [hno y (List.mem_of_find?_eq_some hf)]
  simp [this, dedupNat]

/-- `template_atoms_kept`: an atom the residue templates account for (not flagged `PTM_atom` in the
input) is never removed by `fix_ptm`, whatever annotations it carries and whatever happens to the
groups it belongs to. -/
theorem template_atoms_kept (m : Mol) (mods : List Modif) (given : List (List (List Placement)))
    (hk : m.keys.Nodup) :
    ∃ s, fixPtm m mods given = .done s ∧ ∀ a0 ∈ m.atoms, a0.ptm = false → a0.key ∈ s.mol.keys := by
  have key : ∀ (its : List (List Int × List Group)) (s : St) (given : List (List (List Placement))),
      Inv m.atoms s → ∃ s' : St, runIters mods m.atoms s its given = .done s' ∧
        ∀ a0 ∈ m.atoms, a0.ptm = false → a0.key ∈ s.mol.keys → a0.key ∈ s'.mol.keys := by
    intro its
    induction its with
    | nil => intro s given _; exact ⟨s, rfl, fun _ _ _ h => h⟩
    | cons it its ih =>
      intro s given hinv
      obtain ⟨key, groups⟩ := it
      obtain ⟨s1, hs1, hinv1, _, _⟩ := step_frame mods m.atoms s key groups (given.headD []) hinv
      obtain ⟨s1', hs1', hcase⟩ := step_label_or_remove mods m.atoms s key groups (given.headD [])
      rw [hs1] at hs1'
      cases hs1'
      obtain ⟨s2, hs2, h2⟩ := ih s1 given.tail hinv1
      refine ⟨s2, by simp only [runIters, hs1, hs2], ?_⟩
      intro a0 ha0 hp hin
      apply h2 a0 ha0 hp
      rcases hcase with ⟨rm, l, _, _, _, _, hkeys, _⟩ | ⟨u, c, l, _, _, _, _, hkeys, _⟩
      · rw [hkeys]
        refine ⟨hin, fun h => ?_⟩
        have := (isFlagged_eq hk hinv ha0 hin).symm.trans h.2
        rw [hp] at this
        cases this
      · rw [hkeys]; exact hin
  obtain ⟨s, hs, h⟩ := key (iterations m) { mol := m, removed := [], warnings := [], log := [] } given
    (List.Sublist.refl _)
  exact ⟨s, hs, fun a0 ha0 hp => h a0 ha0 hp (List.mem_map.2 ⟨a0, ha0, rfl⟩)⟩

/-! ## renaming -/

/-- `rename_spec`: applying one chosen placement `c` gives the atom matched on a PTM pattern node `ma`
the canonical name — the `atomname` of the pattern node, or the `replace` entry for `atomname` when
there is one — whatever it was called before; (`MAtom.WF`: attribute dictionaries have distinct keys;
`(patoms c.2).Nodup`: a placement mentions an atom once, true of every injective placement). -/
theorem rename_spec (mods : List Modif) (nIdxs : List Int) (atoms : List Atom) (c : Nat × Placement)
    (hp : (patoms c.2).Nodup) (a q : Int) (hq : (a, q) ∈ c.2) (ma : MAtom)
    (hma : (modAt mods c.1).atom? q = some ma) (hptm : ma.ptm = true) (nm : Option String)
    (hname : nameOf ma.attrs = some nm) (hwf : ma.WF) (b : Atom) (hb : atomAt atoms a = some b) :
    ∃ b', atomAt (applyOne mods nIdxs atoms c) a = some b' ∧ nameOf b'.attrs = some (canonName ma nm) := by
  have hl : c.2.lookup a = some q := Iso.lookup_of_mem (by unfold patoms at hp; exact hp) hq
  have h := attrs_applyOne mods nIdxs atoms c hp a
  rw [hl] at h
  simp only [hma, hb, Option.map_some] at h
  cases hres : atomAt (applyOne mods nIdxs atoms c) a with
  | none => rw [hres] at h; cases h
  | some b' =>
    rw [hres] at h
    simp only [Option.map_some, Option.some.injEq] at h
    exact ⟨b', rfl, by rw [h]; exact applyPair_name ma b hptm nm hname hwf⟩

/-- ... and leaves the attributes of every atom outside the placement alone -/
theorem rename_frame (mods : List Modif) (nIdxs : List Int) (atoms : List Atom) (c : Nat × Placement)
    (hp : (patoms c.2).Nodup) (a : Int) (ha : a ∉ patoms c.2) :
    (atomAt (applyOne mods nIdxs atoms c) a).map (·.attrs) = (atomAt atoms a).map (·.attrs) := by
  have h := attrs_applyOne mods nIdxs atoms c hp a
  have hl : c.2.lookup a = none := by
    rw [List.lookup_eq_none_iff]
    intro y hy
    simp only [bne_iff_ne, ne_eq]
    intro heq
    exact ha (List.mem_map.2 ⟨y, hy, heq.symm⟩)
  rw [hl] at h
  exact h

/-! The composition of `rename_spec` / `rename_frame` over the whole loop (the atom's name and `replace`
attributes in the FINAL molecule, the placement being a candidate of the fragments of ITS iteration) is
`label_or_remove_full` in `VermouthProps/C14_Whole.lean`. -/

/-- non-vacuity of `rename_spec`: pattern node `H2` with `replace: {atomname: HN2}`, atom called `X7` -/
def exNH : Modif :=
  { name := "NH",
    atoms := [MAtom.mk 0 false [("atomname", some "N")] none,
              MAtom.mk 1 true [("atomname", some "H2"), ("element", some "H")] (some [("atomname", some "HN2")])],
    edges := [(0, 1)] }

def exAtoms : List Atom :=
  [Atom.mk 0 1 false false [] [("atomname", some "N")],
   Atom.mk 7 1 true false [] [("atomname", some "X7"), ("element", some "H")]]

example : ∃ b', atomAt (applyOne [exNH] [0, 7] exAtoms (0, [(0, 0), (7, 1)])) 7 = some b'
    ∧ nameOf b'.attrs = some (some "HN2") ∧ aget b'.attrs "_old_atomname" = some (some "H2") :=
  ⟨_, rfl, by decide, by decide⟩

/-! ## witnesses -/

/-- the input of F-C14-1: residue CA (node 0) with one unknown flagged atom (node 1); the only
modification consists of the anchor CA alone, its only placement is `{0}` -/
def w1Frags : List Frag := [(0, [[(0, 0)]])]

/-- `cover_diverges_witness`: BEFORE the repair (`matching <= available` only) the placement `{0}` is
accepted although it covers nothing that is still to be covered, the recursive call gets the same
`to_cover` again (`minus [1] {0} = [1]`), and every amount of fuel is exhausted: the real code ended in
RecursionError. -/
theorem cover_diverges_witness :
    minus [1] [(0, 0)] = [1] ∧ ∀ n, coverGraphOld [0] n [1] w1Frags = .outOfFuel := by
  refine ⟨by decide, ?_⟩
  intro n
  induction n with
  | zero => rfl
  | succ n ih =>
    have h : minus [1] [((0 : Int), (0 : Int))] = [1] := by decide
    simp only [coverGraphOld, coverWith, w1Frags, tryFrags, tryMatches, usableOld] at ih ⊢
    simp [patoms, h, ih]

/-- the same input with the code as it is now: no cover, `KeyError`, i.e. removal + warning -/
example : coverGraph [0] 2 [1, 0] w1Frags = .keyError := by decide

/-- backtracking is needed and works: the first placement of the larger modification leaves atom 3
uncoverable, the second one is completed by the smaller modification -/
example : coverGraph [0] 4 [1, 2, 3, 0]
    [(0, [[(0, 0), (1, 1), (2, 2)], [(0, 0), (2, 1), (3, 2)]]), (1, [[(0, 0), (1, 1)]])]
    = .ok [(0, [(0, 0), (2, 1), (3, 2)]), (1, [(0, 0), (1, 1)])] := by decide

/-- a sub-pattern after its super-pattern: the larger modification is preferred, the smaller one
covers the rest (`fragments[idx:]` keeps the current fragment available) -/
example : coverGraph [0, 5] 4 [1, 2, 3, 0, 5]
    [(0, [[(0, 0), (1, 1), (2, 2)]]), (1, [[(0, 0), (1, 1)], [(5, 0), (3, 1)]])]
    = .ok [(0, [(0, 0), (1, 1), (2, 2)]), (1, [(5, 0), (3, 1)])] := by decide

/-- `IsExactCover` is satisfiable and refutable -/
example : IsExactCover [0] [1, 0] [(0, [[(0, 0), (1, 1)]])] [(0, [(0, 0), (1, 1)])] :=
  coverWith_exact usable_inside [0] 2 [1, 0] _ _ (by decide)

end C14
