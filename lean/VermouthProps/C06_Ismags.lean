import VermouthProofs.C06_Ismags
import VermouthProps.C06
/-!
# C06 — theorems about the TRANSCRIPTION of the ISMAGS search core

`VermouthModel/C06_Ismags.lean` follows `vermouth/ismags.py` statement by statement
(`_find_nodecolor_candidates`, `_get_lookahead_candidates`, `_edges_of_same_color`, `intersect`,
`_map_nodes`, `find_isomorphisms`, `_remove_node`, `_largest_common_subgraph`,
`largest_common_subgraph`, `_make_constraints`); the constraints list (product of
`analyze_symmetry`) is an INPUT.  The theorems below are about that algorithm, for every pair of
graphs, every constraints list and every rule `pick` for the next node that returns a member of
`left_to_map` (`PickOK`; the code's `min(..)` is `pickMin`, `pickMin_ok`).

Hypotheses: pattern node keys distinct (`sg.keys.Nodup`), for "exactly once" also the graph's.
-/
namespace C06
open Iso C06I

/-! ### M2: soundness of `_map_nodes` / `find_isomorphisms` for ANY constraints -/

/-- **Every mapping `find_isomorphisms` yields** (transcription, any constraints list, any rule for
the next node) maps exactly the pattern nodes, each once, is an induced colour-respecting subgraph
isomorphism, is (listed along the pattern nodes) a member of the verified reference `allIsos`, and
obeys the constraints as far as the search enforces them (`Enforced`). -/
theorem ismags_find_sound {pick : Cands → List Int → Int} (hpick : PickOK pick) (edgeNone : Bool)
    (g sg : Graph) (C : Constraints) (hs : sg.keys.Nodup) (m : Map)
    (h : m ∈ findIsomorphismsWith pick edgeNone g sg C) :
    (m.map Prod.fst).Perm sg.keys
    ∧ IsIndIso g sg (Map.toFun m)
    ∧ mapOf sg.keys (Map.toFun m) ∈ allIsos g sg
    ∧ Enforced C sg.keys (Map.toFun m) := by
  have key : (m.map Prod.fst).Nodup ∧ (∀ u, u ∈ sg.keys ↔ u ∈ m.map Prod.fst) ∧ MapOK g sg C m := by
    unfold findIsomorphismsWith at h
    split at h
    · rename_i he
      have hk : sg.keys = [] := List.isEmpty_iff.1 he
      have : m = [] := by simpa using h
      subst this
      exact ⟨by simp, by simp [hk], mapOK_nil g sg C⟩
    · split at h
      · simp at h
      · split at h
        · simp at h
        · dsimp only at h
          split at h
          · have hinv := sInv_set_intersect (sInv_initial edgeNone g sg C sg.keys (fun _ h => h))
              (pick (initialCands edgeNone g sg) ((initialCands edgeNone g sg).map Prod.fst))
            obtain ⟨h1, h2, _, h4⟩ := mapNodes_sound hpick g sg C sg.keys _ _ _ [] hinv (mapOK_nil g sg C)
              (by simp) (by simp) m h
            exact ⟨h2, h4, h1⟩
          · simp at h
  obtain ⟨hn, hmem, hok⟩ := key
  have hiso : IsIndIso g sg (Map.toFun m) := indIsoOn_congr_mem hmem (mapOK_indIso hn hok)
  refine ⟨?_, hiso, allIsos_complete g sg hs _ hiso, ?_⟩
  · exact (List.perm_ext_iff_of_nodup hn hs).2 (fun u => (hmem u).symm)
  · intro lo hi hc hlo hhi hne
    exact mapOK_enforced hn hok lo hi hc ((hmem lo).1 hlo) ((hmem hi).1 hhi) hne

/-- the same for the code's own rule `min(left_to_map, key=...)`; and when no pair of nodes is
constrained in both directions (true of everything `_make_constraints` produces from cosets whose
members are larger than their key) every listed constraint `(low, high)` holds: `m low < m high`. -/
theorem ismags_find_sound_min (edgeNone : Bool) (g sg : Graph) (C : Constraints) (hs : sg.keys.Nodup)
    (m : Map) (h : m ∈ findIsomorphisms edgeNone g sg C) :
    (m.map Prod.fst).Perm sg.keys ∧ IsIndIso g sg (Map.toFun m) ∧ mapOf sg.keys (Map.toFun m) ∈ allIsos g sg
    ∧ (antisymB C = true → Satisfies C sg.keys (Map.toFun m)) := by
  obtain ⟨h1, h2, h3, h4⟩ := ismags_find_sound pickMin_ok edgeNone g sg C hs m h
  exact ⟨h1, h2, h3, fun ha => enforced_satisfies ha h4⟩

/-- `_map_nodes` itself, from any state satisfying the invariant of the candidate table. -/
theorem ismags_mapNodes_sound {pick : Cands → List Int → Int} (hpick : PickOK pick) (g sg : Graph)
    (C : Constraints) (tbm : List Int) (fuel : Nat) (sgn : Int) (cands : Cands) (mapping : Map)
    (hinv : SInv g sg C cands mapping tbm) (hok : MapOK g sg C mapping)
    (hsgn : sgn ∉ mapping.map Prod.fst) (hnd : (mapping.map Prod.fst).Nodup)
    (m : Map) (h : m ∈ mapNodes pick g sg C fuel sgn cands mapping tbm) :
    (∃ rest, m = rest ++ mapping) ∧ (m.map Prod.fst).Nodup ∧ (∀ u, u ∈ tbm ↔ u ∈ m.map Prod.fst)
    ∧ IsIndIsoOn g sg (colourPred g sg) (m.map Prod.fst) (Map.toFun m)
    ∧ Enforced C (m.map Prod.fst) (Map.toFun m) := by
  obtain ⟨h1, h2, h3, h4⟩ := mapNodes_sound hpick g sg C tbm fuel sgn cands mapping hinv hok hsgn hnd m h
  exact ⟨h3, h2, h4, mapOK_indIso h2 h1, mapOK_enforced h2 h1⟩

/-! non-vacuity -/
-- the path 7 - 2 - 9 in the "T": the transcription finds the 8 isomorphisms, 4 with the constraint 7 < 9
example : (findIsomorphisms true t5 p3 []).length = 8 := by decide
example : (findIsomorphisms true t5 p3 [(7, 9)]).length = 4 := by decide
example : antisymB [(7, 9)] = true ∧ antisymB [(7, 9), (9, 7)] = false := by decide
example : SInv t5 p3 [] (initialCands true t5 p3) [] p3.keys := sInv_initial true t5 p3 [] _ (fun _ h => h)

end C06
