import VermouthProofs.C06_Ismags
import VermouthProps.C06
/-!
# C06 — theorems about the TRANSCRIPTION of the ISMAGS search core

`VermouthModel/C06_Ismags.lean` follows `vermouth/ismags.py` statement by statement
(`_find_nodecolor_candidates`, `_get_lookahead_candidates`, `_edges_of_same_color`, `intersect`,
`_map_nodes`, `find_isomorphisms`, `_remove_node`, `_largest_common_subgraph`,
`largest_common_subgraph`, `_make_constraints`); the constraints list (product of
`analyze_symmetry`) is an INPUT.  The theorems below are about that algorithm, for every pair of
graphs, every constraints list and every rule `pick` for the next node that returns a member of
`left_to_map` (`PickOK`; the code's `min(..)` is `pickMin`, `pickMin_ok`).

Hypotheses: pattern node keys distinct (`sg.keys.Nodup`), for "exactly once" also the graph's.
-/
namespace C06
open Iso C06I

/-! ### M2: soundness of `_map_nodes` / `find_isomorphisms` for ANY constraints -/

/-- **Every mapping `find_isomorphisms` yields** (transcription, any constraints list, any rule for
the next node) maps exactly the pattern nodes, each once, is an induced colour-respecting subgraph
isomorphism, is (listed along the pattern nodes) a member of the verified reference `allIsos`, and
obeys the constraints as far as the search enforces them (`Enforced`). -/
theorem ismags_find_sound {pick : Map → Cands → List Int → Int} (hpick : PickOK pick) (edgeNone : Bool)
    (g sg : Graph) (C : Constraints) (hs : sg.keys.Nodup) (m : Map)
    (h : m ∈ findIsomorphismsWith pick edgeNone g sg C) :
    (m.map Prod.fst).Perm sg.keys
    ∧ IsIndIso g sg (Map.toFun m)
    ∧ mapOf sg.keys (Map.toFun m) ∈ allIsos g sg
    ∧ Enforced C sg.keys (Map.toFun m) := by
  have key : (m.map Prod.fst).Nodup ∧ (∀ u, u ∈ sg.keys ↔ u ∈ m.map Prod.fst) ∧ MapOK g sg C m := by
    unfold findIsomorphismsWith at h
    split at h
    · rename_i he
      have hk : sg.keys = [] := List.isEmpty_iff.1 he
      have : m = [] := by simpa using h
      subst this
      exact ⟨by simp, by simp [hk], mapOK_nil g sg C⟩
    · split at h
      · simp at h
      · split at h
        · simp at h
        · dsimp only at h
          split at h
          · have hinv := sInv_set_intersect (sInv_initial edgeNone g sg C sg.keys (fun _ h => h))
              (pick [] (initialCands edgeNone g sg) ((initialCands edgeNone g sg).map Prod.fst))
            obtain ⟨h1, h2, _, h4⟩ := mapNodes_sound hpick g sg C sg.keys _ _ _ [] hinv (mapOK_nil g sg C)
              (by simp) (by simp) m h
            exact ⟨h2, h4, h1⟩
          · simp at h
  obtain ⟨hn, hmem, hok⟩ := key
  have hiso : IsIndIso g sg (Map.toFun m) := indIsoOn_congr_mem hmem (mapOK_indIso hn hok)
  refine ⟨?_, hiso, allIsos_complete g sg hs _ hiso, ?_⟩
  · exact (List.perm_ext_iff_of_nodup hn hs).2 (fun u => (hmem u).symm)
  · intro lo hi hc hlo hhi hne
    exact mapOK_enforced hn hok lo hi hc ((hmem lo).1 hlo) ((hmem hi).1 hhi) hne

/-- the same for the code's own rule `min(left_to_map, key=...)`; and when no pair of nodes is
constrained in both directions (true of everything `_make_constraints` produces from cosets whose
members are larger than their key) every listed constraint `(low, high)` holds: `m low < m high`. -/
theorem ismags_find_sound_min (edgeNone : Bool) (g sg : Graph) (C : Constraints) (hs : sg.keys.Nodup)
    (m : Map) (h : m ∈ findIsomorphisms edgeNone g sg C) :
    (m.map Prod.fst).Perm sg.keys ∧ IsIndIso g sg (Map.toFun m) ∧ mapOf sg.keys (Map.toFun m) ∈ allIsos g sg
    ∧ (antisymB C = true → Satisfies C sg.keys (Map.toFun m)) := by
  obtain ⟨h1, h2, h3, h4⟩ := ismags_find_sound pickMin_ok edgeNone g sg C hs m h
  exact ⟨h1, h2, h3, fun ha => enforced_satisfies ha h4⟩

/-- `_map_nodes` itself, from any state satisfying the invariant of the candidate table. -/
theorem ismags_mapNodes_sound {pick : Map → Cands → List Int → Int} (hpick : PickOK pick) (g sg : Graph)
    (C : Constraints) (tbm : List Int) (fuel : Nat) (sgn : Int) (cands : Cands) (mapping : Map)
    (hinv : SInv g sg C cands mapping tbm) (hok : MapOK g sg C mapping)
    (hsgn : sgn ∉ mapping.map Prod.fst) (hnd : (mapping.map Prod.fst).Nodup)
    (m : Map) (h : m ∈ mapNodes pick g sg C fuel sgn cands mapping tbm) :
    (∃ rest, m = rest ++ mapping) ∧ (m.map Prod.fst).Nodup ∧ (∀ u, u ∈ tbm ↔ u ∈ m.map Prod.fst)
    ∧ IsIndIsoOn g sg (colourPred g sg) (m.map Prod.fst) (Map.toFun m)
    ∧ Enforced C (m.map Prod.fst) (Map.toFun m) := by
  obtain ⟨h1, h2, h3, h4⟩ := mapNodes_sound hpick g sg C tbm fuel sgn cands mapping hinv hok hsgn hnd m h
  exact ⟨h3, h2, h4, mapOK_indIso h2 h1, mapOK_enforced h2 h1⟩

/-- **The rule for the next node.**  `legalChoice c nodes x` = "`x` is a possible result of the code's
`min(nodes, key=lambda n: min(candidates[n], key=len))` for some iteration order of the sets involved"
(a minimal element for the proper-subset order of the frozenset keys).  Every legal choice is a member
of `nodes` (so every theorem with hypothesis `PickOK` covers the run replayed with the choices recorded
from the real code, which the driver accepts only when legal), and the model's deterministic rule
`pickMin` is legal. -/
theorem ismags_min_rule (c : Cands) (nodes : List Int) :
    (∀ x, legalChoice c nodes x = true → x ∈ nodes)
    ∧ (nodes ≠ [] → legalChoice c nodes (pickMin c nodes) = true) :=
  ⟨fun _ h => legalChoice_mem h, pickMin_legal c nodes⟩

/-! ### M3: completeness, every solution exactly once -/

/-- **Every induced subgraph isomorphism that meets the constraints is yielded** by the transcribed
`find_isomorphisms`, whatever the rule for the next node (`F` meets the constraints: for every
ordered pair of distinct pattern nodes the demand `cOK` of `_map_nodes` holds; see
`ismags_find_exact` for the reading "every listed constraint holds").  Uses that the look-ahead
candidates, the node-colour candidates and every set added by `_map_nodes` contain the image of
every solution.  `noSelfLoops sg`: the pattern is a simple graph. -/
theorem ismags_find_complete {pick : Map → Cands → List Int → Int} (hpick : PickOK pick) (edgeNone : Bool)
    (g sg : Graph) (C : Constraints) (hs : sg.keys.Nodup) (hloop : noSelfLoops sg = true)
    (F : Int → Int) (hF : IsIndIso g sg F)
    (hC : ∀ a ∈ sg.keys, ∀ b ∈ sg.keys, a ≠ b → cOK C a (F a) b (F b) = true) :
    ∃ m ∈ findIsomorphismsWith pick edgeNone g sg C, ∀ u ∈ sg.keys, Map.toFun m u = F u := by
  unfold findIsomorphismsWith
  split
  · rename_i he
    refine ⟨[], by simp, ?_⟩
    rw [List.isEmpty_iff.1 he]; simp
  · rename_i he
    have hne : sg.keys ≠ [] := fun e => he (by rw [e]; rfl)
    obtain ⟨u0, hu0⟩ := List.exists_mem_of_ne_nil _ hne
    split
    · rename_i hge
      have := (hF.node u0 hu0).1
      rw [List.isEmpty_iff.1 hge] at this; simp at this
    · split
      · rename_i hlt
        exfalso
        have hnd : (sg.keys.map F).Nodup := by
          rw [List.nodup_iff_pairwise_ne, List.pairwise_map]
          exact List.Pairwise.imp_of_mem (fun ha hb hne => hF.inj _ ha _ hb hne) hs
        have hsub : sg.keys.map F ⊆ g.keys := by
          intro x hx
          obtain ⟨u, hu, rfl⟩ := List.mem_map.1 hx
          exact (hF.node u hu).1
        have := hnd.length_le_of_subset hsub
        simp at this; omega
      · dsimp only
        rw [if_pos (initialCands_any edgeNone g sg hne)]
        have hstart : pick [] (initialCands edgeNone g sg) ((initialCands edgeNone g sg).map Prod.fst) ∈ sg.keys := by
          have := hpick [] (initialCands edgeNone g sg) ((initialCands edgeNone g sg).map Prod.fst)
            (by rw [initialCands_keys]; exact hne)
          rw [initialCands_keys] at this ⊢
          exact this
        exact mapNodes_complete hpick g sg C sg.keys F ⟨hF, hC⟩ _ _ _ [] (by simp) (by simp)
          (cInv_set_intersect (cInv_initial edgeNone hs hloop hF) _) hstart (by simp) (by simp) (by simp)

/-- **... exactly once**: two yielded mappings differ on some pattern node. -/
theorem ismags_find_distinct {pick : Map → Cands → List Int → Int} (hpick : PickOK pick) (edgeNone : Bool)
    (g sg : Graph) (C : Constraints) (hg : g.keys.Nodup) :
    (findIsomorphismsWith pick edgeNone g sg C).Pairwise (Differ sg.keys) := by
  unfold findIsomorphismsWith
  split
  · exact List.pairwise_singleton _ _
  · split
    · exact List.Pairwise.nil
    · split
      · exact List.Pairwise.nil
      · dsimp only
        split
        · exact mapNodes_distinct hpick g sg hg C sg.keys _ _ _ []
            (nInv_set_intersect (nInv_initial edgeNone hg) _) (by simp) (by simp)
        · exact List.Pairwise.nil

theorem toFun_mapOf {S : List Int} (f : Int → Int) {u : Int} (hu : u ∈ S) : Map.toFun (mapOf S f) u = f u := by
  unfold Map.toFun mapOf
  rw [lookup_map_mk S f hu]; rfl

/-- **Exact characterisation of `find_isomorphisms`** (transcription) for a constraints list without
a pair constrained in both directions: listed along the pattern nodes, the yielded mappings are
exactly the members of the reference `allIsos` that satisfy every constraint `m low < m high`, and
none is yielded twice - independently of the rule for the next node. -/
theorem ismags_find_exact {pick : Map → Cands → List Int → Int} (hpick : PickOK pick) (edgeNone : Bool)
    (g sg : Graph) (C : Constraints) (hs : sg.keys.Nodup) (hg : g.keys.Nodup) (hloop : noSelfLoops sg = true)
    (ha : antisymB C = true) :
    (∀ m', m' ∈ (findIsomorphismsWith pick edgeNone g sg C).map (fun m => mapOf sg.keys (Map.toFun m))
        ↔ m' ∈ allIsos g sg ∧ Satisfies C sg.keys (Map.toFun m'))
    ∧ ((findIsomorphismsWith pick edgeNone g sg C).map (fun m => mapOf sg.keys (Map.toFun m))).Nodup := by
  constructor
  · intro m'
    constructor
    · intro h
      obtain ⟨m, hm, rfl⟩ := List.mem_map.1 h
      obtain ⟨_, _, h3, h4⟩ := ismags_find_sound hpick edgeNone g sg C hs m hm
      refine ⟨h3, ?_⟩
      intro lo hi hc hlo hhi
      rw [toFun_mapOf _ hlo, toFun_mapOf _ hhi]
      exact enforced_satisfies ha h4 lo hi hc hlo hhi
    · rintro ⟨h1, h2⟩
      obtain ⟨hdom, hiso⟩ := allIsos_sound g sg hs m' h1
      obtain ⟨m, hm, hagree⟩ := ismags_find_complete hpick edgeNone g sg C hs hloop _ hiso
        ((sol_iff_satisfies ha sg.keys _).2 h2)
      refine List.mem_map.2 ⟨m, hm, ?_⟩
      have hn : (m'.map Prod.fst).Nodup := by rw [hdom]; exact hs
      have e : mapOf sg.keys (Map.toFun m) = mapOf sg.keys (Map.toFun m') := by
        unfold mapOf
        apply List.map_congr_left
        intro u hu; rw [hagree u hu]
      rw [e]
      have := map_toFun_eq hn
      rw [hdom] at this
      exact this
  · have hd := ismags_find_distinct hpick edgeNone g sg C hg
    refine List.Pairwise.map _ ?_ hd
    rintro a b ⟨u, hu, hne⟩ e
    apply hne
    have := congrArg (fun m => Map.toFun m u) e
    simpa [toFun_mapOf _ hu] using this

/-- **Symmetry off** (`constraints = []`): the transcribed `find_isomorphisms` yields every induced
subgraph isomorphism exactly once: its output, listed along the pattern nodes, is a permutation of
the verified reference `allIsos`, whatever the rule for the next node. -/
theorem ismags_find_all {pick : Map → Cands → List Int → Int} (hpick : PickOK pick) (edgeNone : Bool)
    (g sg : Graph) (hs : sg.keys.Nodup) (hg : g.keys.Nodup) (hloop : noSelfLoops sg = true) :
    ((findIsomorphismsWith pick edgeNone g sg []).map (fun m => mapOf sg.keys (Map.toFun m))).Perm (allIsos g sg) := by
  obtain ⟨h1, h2⟩ := ismags_find_exact hpick edgeNone g sg [] hs hg hloop (by rfl)
  rw [List.perm_ext_iff_of_nodup h2 (allIsos_nodup g sg hg)]
  intro m'
  rw [h1]
  constructor
  · exact fun h => h.1
  · intro h; exact ⟨h, by intro lo hi hc; simp at hc⟩

/-- the code's own rule -/
theorem ismags_find_all_min (edgeNone : Bool) (g sg : Graph) (hs : sg.keys.Nodup) (hg : g.keys.Nodup)
    (hloop : noSelfLoops sg = true) :
    ((findIsomorphisms edgeNone g sg []).map (fun m => mapOf sg.keys (Map.toFun m))).Perm (allIsos g sg) :=
  ismags_find_all pickMin_ok edgeNone g sg hs hg hloop

/-! non-vacuity -/
example : noSelfLoops p3 = true ∧ noSelfLoops t5 = true ∧ t5.keys.Nodup := by decide
example : ((findIsomorphisms true t5 p3 [(7, 9)]).map (fun m => mapOf p3.keys (Map.toFun m)))
    = [[(2, 11), (7, 8), (9, 30)], [(2, 30), (7, 4), (9, 5)], [(2, 30), (7, 4), (9, 11)], [(2, 30), (7, 5), (9, 11)]] := by
  decide
-- the path 7 - 2 - 9 in the "T": the transcription finds the 8 isomorphisms, 4 with the constraint 7 < 9
example : (findIsomorphisms true t5 p3 []).length = 8 := by decide
example : (findIsomorphisms true t5 p3 [(7, 9)]).length = 4 := by decide
example : antisymB [(7, 9)] = true ∧ antisymB [(7, 9), (9, 7)] = false := by decide
example : SInv t5 p3 [] (initialCands true t5 p3) [] p3.keys := sInv_initial true t5 p3 [] _ (fun _ h => h)

end C06
