import VermouthProofs.C04_Ref
/-!
# C04 — `make_reference` around the matcher

Property-level theorems about `C04.Ref.makeRef`, the model of the body of the loop of
`make_reference` (vermouth/processors/repair_graph.py): guessing elements, sorting "common atom
names first", relabelling both graphs to `0…n-1`, the node predicate handed to the matcher, taking
the FIRST answer, and mapping it back ("unsort").  The matcher is an input: `answers` is what
`ISMAGS.largest_common_subgraph()` yields.

Vocabulary: `newLabels atoms other` = the dictionary `{old: new}`; `invert` its inverse;
`relabel mp g` = `nx.relabel_nodes(g, mp, copy=True)`; `graphOf atoms edges` the element-coloured
graph; `IsMCIS g sg M` = "`M` (in ANY order) is a maximum common induced subgraph of target `g` and
pattern `sg`" (the order-free specification of one answer of the matcher; `allMCIS` of C06 lists
them in pattern order, see `isMCIS_of_allMCIS` / `isMCIS_length`); `GIso φ g g'` = `φ` is an
isomorphism of coloured graphs.
-/
namespace C04.Ref
open Iso C04

/-! ## the relabelling -/

/-- **The relabelling never loses or merges atoms**: the new labels are exactly `0 … n-1`, each
used once, every atom gets one, two atoms never get the same, and the inverse dictionary brings
every atom back. -/
theorem relabel_is_bijection (atoms : List RAtom) (other : List String) (hk : (atoms.map (·.key)).Nodup) :
    (dom (newLabels atoms other)).Perm (atoms.map (·.key))
    ∧ ran (newLabels atoms other) = (List.range atoms.length).map Int.ofNat
    ∧ (∀ k ∈ atoms.map (·.key), Map.toFun (invert (newLabels atoms other)) (Map.toFun (newLabels atoms other) k) = k)
    ∧ (∀ k ∈ atoms.map (·.key), ∀ k' ∈ atoms.map (·.key),
        Map.toFun (newLabels atoms other) k = Map.toFun (newLabels atoms other) k' → k = k') := by
  have hb := newLabels_bij atoms other hk
  have hp := newLabels_dom_perm atoms other
  refine ⟨hp, newLabels_ran atoms other, ?_, ?_⟩
  · intro k hk'; exact invert_toFun hb (hp.mem_iff.2 hk')
  · intro k hk' k' hk'' e; exact toFun_inj hb (hp.mem_iff.2 hk') (hp.mem_iff.2 hk'') e

example : newLabels [⟨7, .str "CB", some 6⟩, ⟨3, .absent, some 1⟩, ⟨5, .str "X", some 8⟩, ⟨9, .str "CA", some 6⟩] ["CA", "CB", "N"]
    = [(9, 0), (7, 1), (5, 2), (3, 3)] := by decide

/-! ## what `makeRef` returns -/

theorem addElements_keys {l l' : List RAtom} (h : addElements l = .ok l') :
    l'.map (·.key) = l.map (·.key) ∧ ∀ a ∈ l', a.elem.isSome = true := by
  induction l generalizing l' with
  | nil => simp only [addElements, Except.ok.injEq] at h; subst h; simp
  | cons a l ih =>
    unfold addElements at h
    cases ha : addElement a with
    | error e => simp [ha] at h
    | ok a' =>
      cases hl : addElements l with
      | error e => simp [ha, hl] at h
      | ok rest =>
        simp only [ha, hl, Except.ok.injEq] at h
        subst h
        obtain ⟨i1, i2⟩ := ih hl
        have hk : a'.key = a.key ∧ a'.elem.isSome = true := by
          unfold addElement at ha
          cases he : a.elem with
          | some e => simp only [he, Except.ok.injEq] at ha; subst ha; exact ⟨rfl, by simp [he]⟩
          | none =>
            simp only [he] at ha
            cases hn : a.name with
            | absent => simp [hn] at ha
            | pyNone => simp [hn] at ha
            | str n =>
              simp only [hn] at ha
              cases hf : firstAlpha n with
              | none => simp [hf] at ha
              | some c => simp only [hf, Except.ok.injEq] at ha; subst ha; exact ⟨rfl, rfl⟩
        refine ⟨by simp [hk.1, i1], ?_⟩
        intro x hx
        rcases List.mem_cons.1 hx with rfl | hx
        · exact hk.2
        · exact i2 x hx

/-- the shape of a successful `makeRef` -/
theorem makeRef_ok {res ref : List RAtom} {resE refE : List (Int × Int)} {answers : List Map} {out : RefOut}
    (h : makeRef res ref resE refE answers = .ok out) :
    ∃ res' ref', addElements res = .ok res' ∧ addElements ref = .ok ref'
      ∧ out.resNew = newLabels res' (namesOf ref') ∧ out.refNew = newLabels ref' (namesOf res')
      ∧ out.resCopy = relabel out.resNew (graphOf res' resE) ∧ out.refCopy = relabel out.refNew (graphOf ref' refE)
      ∧ ((answers = [] ∧ out.mtch = none)
         ∨ ∃ A rest M, answers = A :: rest ∧ unsort (invert out.refNew) (invert out.resNew) A = some M ∧ out.mtch = some M) := by
  unfold makeRef at h
  cases h1 : addElements ref with
  | error e => simp [h1] at h
  | ok ref' =>
    cases h2 : addElements res with
    | error e => simp [h1, h2] at h
    | ok res' =>
      simp only [h1, h2] at h
      refine ⟨res', ref', rfl, rfl, ?_⟩
      cases answers with
      | nil =>
        simp only [Except.ok.injEq] at h; subst h
        exact ⟨rfl, rfl, rfl, rfl, Or.inl ⟨rfl, rfl⟩⟩
      | cons A rest =>
        simp only at h
        cases h3 : unsort (invert (newLabels ref' (namesOf res'))) (invert (newLabels res' (namesOf ref'))) A with
        | none => simp [h3] at h
        | some M =>
          simp only [h3, Except.ok.injEq] at h; subst h
          exact ⟨rfl, rfl, rfl, rfl, Or.inr ⟨A, rest, M, rfl, h3, rfl⟩⟩

/-- **A residue is skipped exactly when the matcher gives no answer**, and otherwise the match
handed to `repair_residue` is the FIRST answer mapped back through the two relabellings. -/
theorem chosen_match_is_answer {res ref : List RAtom} {resE refE : List (Int × Int)} {answers : List Map} {out : RefOut}
    (h : makeRef res ref resE refE answers = .ok out) :
    (out.mtch = none ↔ answers = [])
    ∧ ∀ M, out.mtch = some M → ∃ A rest, answers = A :: rest
        ∧ M = mapPairs (Map.toFun (invert out.refNew)) (Map.toFun (invert out.resNew)) A := by
  obtain ⟨res', ref', _, _, _, _, _, _, hm⟩ := makeRef_ok h
  rcases hm with ⟨ha, hn⟩ | ⟨A, rest, M, ha, hu, hs⟩
  · exact ⟨⟨fun _ => ha, fun _ => hn⟩, fun M hM => by rw [hn] at hM; cases hM⟩
  · refine ⟨⟨fun hc => (by rw [hs] at hc; cases hc), fun hc => (by rw [ha] at hc; cases hc)⟩, ?_⟩
    intro M' hM'
    rw [hs] at hM'; cases hM'
    exact ⟨A, rest, ha, unsort_eq_map hu⟩

/-! ## the node predicate -/

theorem lookup_graphOf {atoms : List RAtom} (hk : (atoms.map (·.key)).Nodup) (edges : List (Int × Int))
    {a : RAtom} (ha : a ∈ atoms) : (graphOf atoms edges).ncol a.key = some (a.elem.getD (-1)) := by
  have hm : (a.key, a.elem.getD (-1)) ∈ (graphOf atoms edges).nodes := List.mem_map.2 ⟨a, ha, rfl⟩
  have hn : ((graphOf atoms edges).nodes.map Prod.fst).Nodup := by
    simpa [graphOf, List.map_map, Function.comp_def] using hk
  exact Iso.lookup_of_mem hn hm

/-- **The node predicate is "same element", nothing else** (atom names are not compared): on atoms
with an element — all of them after `add_element_attr` — `nodeMatch` is the colour predicate of the
element-coloured graphs that the specification of the matcher talks about. -/
theorem node_match_is_element (res' ref' : List RAtom) (resE refE : List (Int × Int))
    (hr : (res'.map (·.key)).Nodup) (hf : (ref'.map (·.key)).Nodup)
    (r s : RAtom) (hrm : r ∈ ref') (hsm : s ∈ res') (hre : r.elem.isSome = true) (hse : s.elem.isSome = true) :
    nodeMatch r s = colourPred (graphOf res' resE) (graphOf ref' refE) r.key s.key := by
  unfold colourPred nodeMatch
  rw [lookup_graphOf hr resE hsm, lookup_graphOf hf refE hrm]
  cases h1 : r.elem with
  | none => rw [h1] at hre; cases hre
  | some x =>
    cases h2 : s.elem with
    | none => rw [h2] at hse; cases hse
    | some y =>
      simp only [Option.getD_some]
      by_cases e : x = y
      · subst e; simp
      · have e' : y ≠ x := fun h => e h.symm
        have b1 : (x == y) = false := by simpa using e
        have b2 : (y == x) = false := by simpa using e'
        show (x == y) = (y == x)
        rw [b1, b2]

/-! ## the chosen match satisfies the matcher's specification on the ORIGINAL graphs -/

def PairsClosed (atoms : List RAtom) (edges : List (Int × Int)) : Prop :=
  ∀ e ∈ edges, e.1 ∈ atoms.map (·.key) ∧ e.2 ∈ atoms.map (·.key)
instance (atoms : List RAtom) (edges : List (Int × Int)) : Decidable (PairsClosed atoms edges) := by
  unfold PairsClosed; infer_instance

theorem graphOf_keys (atoms : List RAtom) (edges : List (Int × Int)) : (graphOf atoms edges).keys = atoms.map (·.key) := by
  simp [graphOf, Graph.keys, List.map_map, Function.comp_def]

theorem graphOf_closed {atoms : List RAtom} {edges : List (Int × Int)} (h : PairsClosed atoms edges) :
    EdgesClosed (graphOf atoms edges) := by
  intro e he
  rw [graphOf_keys]
  obtain ⟨x, hx, rfl⟩ := List.mem_map.1 he
  exact h x hx

/-- the relabelled graph handed to the matcher is isomorphic to the original one, in both directions -/
theorem relabelled_iso (atoms : List RAtom) (other : List String) (edges : List (Int × Int))
    (hk : (atoms.map (·.key)).Nodup) (hc : PairsClosed atoms edges) :
    GIso (Map.toFun (newLabels atoms other)) (graphOf atoms edges) (relabel (newLabels atoms other) (graphOf atoms edges))
    ∧ GIso (Map.toFun (invert (newLabels atoms other))) (relabel (newLabels atoms other) (graphOf atoms edges)) (graphOf atoms edges) := by
  have hb := newLabels_bij atoms other hk
  have hp := newLabels_dom_perm atoms other
  have hdom : ∀ u ∈ (graphOf atoms edges).keys, u ∈ dom (newLabels atoms other) := by
    intro u hu; rw [graphOf_keys] at hu; exact hp.mem_iff.2 hu
  have h1 := relabel_giso hb hdom (graphOf_closed hc)
  exact ⟨h1, h1.symm (fun u hu => invert_toFun hb (hdom u hu))⟩

/-- **The match handed to `repair_residue` satisfies the specification of the matcher on the
ORIGINAL residue and reference** whenever the matcher's first answer satisfies it on the relabelled
graphs it was given: relabelling and "unsorting" cancel. -/
theorem chosen_match_is_mcis {res ref : List RAtom} {resE refE : List (Int × Int)} {A : Map} {rest : List Map} {out : RefOut}
    (hr : (res.map (·.key)).Nodup) (hf : (ref.map (·.key)).Nodup)
    (hrc : PairsClosed res resE) (hfc : PairsClosed ref refE)
    (h : makeRef res ref resE refE (A :: rest) = .ok out)
    (hA : IsMCIS out.resCopy out.refCopy A) :
    ∃ res' ref' M, addElements res = .ok res' ∧ addElements ref = .ok ref' ∧ out.mtch = some M
      ∧ IsMCIS (graphOf res' resE) (graphOf ref' refE) M := by
  obtain ⟨res', ref', h1, h2, e1, e2, e3, e4, hm⟩ := makeRef_ok h
  rcases hm with ⟨ha, _⟩ | ⟨A', rest', M, ha, hu, hs⟩
  · cases ha
  · cases ha
    have k1 := (addElements_keys h1).1
    have k2 := (addElements_keys h2).1
    have hr' : (res'.map (·.key)).Nodup := k1 ▸ hr
    have hf' : (ref'.map (·.key)).Nodup := k2 ▸ hf
    have hrc' : PairsClosed res' resE := by unfold PairsClosed; rw [k1]; exact hrc
    have hfc' : PairsClosed ref' refE := by unfold PairsClosed; rw [k2]; exact hfc
    obtain ⟨gR, gR'⟩ := relabelled_iso res' (namesOf ref') resE hr' hrc'
    obtain ⟨gF, gF'⟩ := relabelled_iso ref' (namesOf res') refE hf' hfc'
    refine ⟨res', ref', M, h1, h2, hs, ?_⟩
    rw [unsort_eq_map hu, e1, e2]
    rw [e3, e4, e1, e2] at hA
    exact isMCIS_transport gR' gF' (fun t ht => gR.right_inv (fun u hu => gR'.keys u |>.1 |> fun _ => by
        exact invert_toFun (newLabels_bij res' (namesOf ref') hr')
          ((newLabels_dom_perm res' (namesOf ref')).mem_iff.2 (by rw [graphOf_keys] at hu; exact hu))) ht)
      (fun t ht => gF.right_inv (fun u hu =>
        invert_toFun (newLabels_bij ref' (namesOf res') hf')
          ((newLabels_dom_perm ref' (namesOf res')).mem_iff.2 (by rw [graphOf_keys] at hu; exact hu))) ht) hA

/-! ## independence of the presentation, as far as it is true -/

/-- **The SET of matches the matcher may return is equivariant under the presentation**: if a
second presentation of the residue is the first one with its atoms renamed, listed in another order
and keyed differently (`π` maps the atoms of the first onto those of the second, preserving elements
and bonds), then `M` is a possible answer for the first iff `π ∘ M` is one for the second — and the
same holds for any re-presentation `ψ` of the reference block.  What is NOT invariant is WHICH
member of the set comes first: that is decided by the name-biased node order and the matcher's
tie-breaking, and it changes the names given to symmetric atoms, never the clauses of the property
(`VermouthProps/C04_Pipeline.lean` states those for EVERY member of the set). -/
theorem match_invariant_under_presentation {g g' sg sg' : Graph} {π πi ψ ψi : Int → Int}
    (hπ : GIso π g g') (hπi : ∀ u ∈ g.keys, πi (π u) = u)
    (hψ : GIso ψ sg sg') (hψi : ∀ u ∈ sg.keys, ψi (ψ u) = u) (M : Map) :
    (IsMCIS g sg M → IsMCIS g' sg' (mapPairs ψ π M))
    ∧ (IsMCIS g' sg' (mapPairs ψ π M) → (∀ p ∈ M, p.1 ∈ sg.keys ∧ p.2 ∈ g.keys) → IsMCIS g sg M) := by
  refine ⟨isMCIS_transport hπ hψ hπi hψi, ?_⟩
  intro h hM
  have hb := isMCIS_transport (hπ.symm hπi) (hψ.symm hψi) (fun t ht => hπ.right_inv hπi ht) (fun t ht => hψ.right_inv hψi ht) h
  have : mapPairs ψi πi (mapPairs ψ π M) = M := by
    unfold mapPairs
    rw [List.map_map]
    conv => rhs; rw [← List.map_id M]
    apply List.map_congr_left
    intro p hp
    obtain ⟨h1, h2⟩ := hM p hp
    simp only [Function.comp, id]
    rw [hψi _ h1, hπi _ h2]
  rw [this] at hb; exact hb

end C04.Ref
