import VermouthProofs.C18_State
import VermouthProofs.C18_Map
/-!
# C18 (follow-up) — reused processors and the contact-map reader

* `ComputeStructuralGoBias` keeps its (chain, input resid) → residue-node table on `self`; the model
  carries it as explicit state (`Cache`, `lookupS`, `selectContactsS`, `runHistory`).  The code as it is
  is **not** stateless (`reuse_not_stateless`, finding F-C18-3); it is when the table is consistent
  with the molecule at hand, in particular for a fresh processor, for repeated use on the same
  molecule, and for the repaired code that clears the table in `run_molecule`.
  `VirtualSiteCreator.run_system` and `GoPipeline.run_system` keep no state between applications (the
  pipeline constructs its sub-processors anew); their models are the pure functions of `C18.lean` and
  the histories in the harness tie them.
* `read_go_map`: `readGoMap`, `parseLine`.
-/
namespace C18

/-! ## reused ComputeStructuralGoBias -/

/-- a processor whose table agrees with the molecule behaves like a fresh one and keeps agreeing -/
theorem reuse_consistent_eq (cache : Cache) (P : Params) (atoms : List Atom) (edges : List (Int × Int))
    (contacts : List Contact) (h : Cons cache (residuesOf atoms)) :
    (selectContactsS cache P atoms edges contacts).1 = selectContacts P atoms edges contacts
    ∧ Cons (selectContactsS cache P atoms edges contacts).2 (residuesOf atoms) :=
  runLoopS_cons P _ _ contacts cache _ h

/-- a fresh processor (empty table) is the stateless model -/
theorem reuse_fresh_eq (P : Params) (atoms : List Atom) (edges : List (Int × Int)) (contacts : List Contact) :
    (selectContactsS [] P atoms edges contacts).1 = selectContacts P atoms edges contacts :=
  (reuse_consistent_eq [] P atoms edges contacts (cons_nil _)).1

/-- using one processor again on the same molecule (any contact lists, any edges) is stateless -/
theorem reuse_same_molecule_stateless (P : Params) (atoms : List Atom) (edges edges' : List (Int × Int))
    (contacts contacts' : List Contact) :
    (selectContactsS (selectContactsS [] P atoms edges contacts).2 P atoms edges' contacts').1
      = selectContacts P atoms edges' contacts' :=
  (reuse_consistent_eq _ P atoms edges' contacts'
    (reuse_consistent_eq [] P atoms edges contacts (cons_nil _)).2).1

/-- the repaired code (table cleared at the start of `run_molecule`) is stateless over any history -/
theorem history_reset_stateless (P : Params) (jobs : List Job) (cache : Cache) :
    runHistory true P jobs cache = jobs.map (fun j => selectContacts P j.atoms j.edges j.contacts) := by
  induction jobs generalizing cache with
  | nil => rfl
  | cons j rest ih =>
    simp only [runHistory, if_true, List.map_cons, ih]
    rw [reuse_fresh_eq]

/-- the first application of a new processor is always the stateless result -/
theorem history_first_fresh (P : Params) (j : Job) (rest : List Job) :
    (runHistory false P (j :: rest) []).head? = some (selectContacts P j.atoms j.edges j.contacts) := by
  simp [runHistory, reuse_fresh_eq]

namespace ReuseExample

def mk (i : Nat) (old : Int) : Atom :=
  { key := i + 1, atomname := "BB", resid := i + 1, oldResid := old, resname := "ALA", chain := "A",
    atype := "P2", cg := some (i + 1), pos := (2 * i, 0, 0), ss := none }

/-- a chain of backbone beads with the given input resids, sites added, contact 1–5 both ways -/
def job (olds : List Int) : Job :=
  let atoms := olds.zipIdx.map fun p => mk p.2 p.1
  { atoms := withSites atoms (addVirtualSites "mol" "BB" "CA" atoms),
    edges := (List.range (olds.length - 1)).map fun (i : Nat) => ((i : Int) + 1, (i : Int) + 2),
    contacts := [⟨1, "A", 5, "A"⟩, ⟨5, "A", 1, "A"⟩] }

def P : Params := { pre := "mol", backbone := "BB", low := ⟨1, 2⟩, up := ⟨20, 1⟩, sep := 2 }
def j1 : Job := job [1, 2, 3, 4, 5]
def j2 : Job := job [5, 4, 3, 2, 1, 9, 1]

/-- fresh processor on the second system: one Go pair, 12 lattice units apart -/
example : selectContacts P j2.atoms j2.edges j2.contacts
    = .ok [{ ta := "mol_1", tb := "mol_7", d2 := 144, bbA := 1, bbB := 7 }] := by decide
/-- the same processor after it has seen the first system: the stale residue node is used -/
example : runHistory false P [j1, j2] [] =
    [.ok [{ ta := "mol_5", tb := "mol_1", d2 := 64, bbA := 5, bbB := 1 }], .keyerror] := by decide

end ReuseExample

/-- **The code as it is is not stateless**: a history whose second result differs from a fresh
processor's (replayed on the real code: corpus `c18_history.json`, finding F-C18-3). -/
theorem reuse_not_stateless :
    ∃ (P : Params) (j1 j2 : Job),
      runHistory false P [j1, j2] [] ≠ [j1, j2].map (fun j => selectContacts P j.atoms j.edges j.contacts) :=
  ⟨ReuseExample.P, ReuseExample.j1, ReuseExample.j2, by decide⟩

/-! ## the contact-map file -/

/-- **Every well-formed line yields exactly its declared directed contact**: 18 blank-separated
columns, first column `R`, column 12 = 1 or (column 12 = 0 and column 15 = 1); residues from columns
6 and 10 (as `int()` reads them), chains from columns 5 and 9 — whatever blanks surround the line. -/
theorem go_map_line_wellformed (lead trail : List Char) (t : List (List Char)) (a b : Int) (ca cb : List Char)
    (hw : WellFormed t a ca b cb) (htok : ∀ x ∈ t, WsFree x) (hl : AllWs lead) (ht : AllWs trail) :
    parseLine (lead ++ render t ++ trail)
      = .contact { residA := a, chainA := String.ofList ca, residB := b, chainB := String.ofList cb } := by
  unfold parseLine
  rw [splitWs_render lead trail t htok hl ht]
  exact parseTokens_wellformed hw

/-- only well-formed lines yield a contact, and it is the declared one -/
theorem go_map_contact_only_wellformed (line : List Char) (c : Contact) (h : parseLine line = .contact c) :
    ∃ ca cb, WellFormed (splitWs line) c.residA ca c.residB cb
      ∧ c.chainA = String.ofList ca ∧ c.chainB = String.ofList cb :=
  parseTokens_contact h

/-- blank, comment and short/long lines are ignored -/
theorem go_map_other_lines_ignored (line : List Char) (h : (splitWs line).length ≠ 18) :
    parseLine line = .ignored := parseTokens_short h

/-- the file: one contact per selected line, in file order; empty result is an IOError; a residue
field that is not an integer aborts with ValueError -/
theorem go_map_file (text : List Char) :
    readGoMap text =
      if LineResult.valueError ∈ (splitLines text).map parseLine then .valueError
      else if ((splitLines text).map parseLine).filterMap contactOf = [] then .ioError
      else .ok (((splitLines text).map parseLine).filterMap contactOf) := by
  unfold readGoMap
  by_cases h : LineResult.valueError ∈ (splitLines text).map parseLine
  · rw [if_pos h, collect_valueError _ _ h]
  · rw [if_neg h, collect_eq _ _ h]
    simp

namespace MapExample
def line : List Char :=
  "R      1     1  LYS A    1       46  VAL B   22       3.8094     1 1 1 1    11     369    0".toList
example : parseLine line = .contact ⟨1, "A", 22, "B"⟩ := by decide
example : WellFormed (splitWs line) 1 ['A'] 22 ['B'] :=
  ⟨"1".toList, "1".toList, "LYS".toList, "1".toList, "46".toList, "VAL".toList, "22".toList, "3.8094".toList,
   "1".toList, "1".toList, "1".toList, "1".toList, "11".toList, "369".toList, "0".toList,
   by decide, by decide, by decide, by decide⟩
example : ∀ x ∈ splitWs line, WsFree x := by decide
/-- a comment, a short line, an unselected line and two selected ones (one in each direction) -/
example : readGoMap ("# header\nR 1 1 A 1 6\n".toList ++ line ++ "\r\n".toList
      ++ "Residue-Residue Contacts\nR 2 1 LYS A 1 47 GLY B 23 6.3 0 0 0 0 12 1 5\n".toList
      ++ "R 3 46 VAL B 22 1 LYS A 1 6.3 0 1 0 1 12 1 5".toList)
    = .ok [⟨1, "A", 22, "B"⟩, ⟨22, "B", 1, "A"⟩] := by decide
end MapExample

end C18
