import VermouthModel.C10
import Generated.C10Radii
/-!
# C10 — table theorem: the van der Waals radii used by the code are Bondi's

`C10.vdwRadii` is re-extracted from `vermouth/processors/make_bonds.py` on every run
(`Generated/C10Radii.lean`, integers in 1e-3 nm).  `bondi` below is typed from
A. Bondi, J. Phys. Chem. 68 (1964) 441, table I, in Å × 100 (1 Å × 100 = 1e-3 nm, so the
numbers are directly comparable).  Hydrogen: Bondi's value 1.20 Å is what the property
demands; the comment in the source cites Rowland & Taylor (1996, 1.10 Å) but the code uses
1.20 as well, and says deuterium is given the value of hydrogen.
-/
namespace C10

/-- Bondi radii, Å × 100 -/
def bondi : List (String × Nat) := [
  ("H", 120), ("D", 120), ("He", 140), ("C", 170), ("N", 155), ("O", 152), ("F", 147), ("Ne", 154),
  ("Si", 210), ("P", 180), ("S", 180), ("Cl", 175), ("Ar", 188), ("As", 185), ("Se", 190),
  ("Br", 185), ("Kr", 202), ("Te", 206), ("I", 198), ("Xe", 216)]

/-- Every entry of the code's table is exactly representable, names an element once, and
carries Bondi's radius. -/
theorem radii_are_bondi :
    vdwRadiiExact = true
    ∧ (vdwRadii.map (·.1)).Nodup
    ∧ ∀ e ∈ vdwRadii, radiusOf bondi (some e.1) = some e.2 := by
  decide

/-- The elements the property talks about are all there (so `radiusOf` agrees with Bondi on them). -/
theorem bondi_elements_present : ∀ e ∈ bondi, radiusOf vdwRadii (some e.1) = some e.2 := by
  decide

end C10
