#check @List.idxOf_cons
#check @List.findIdx?_cons
#check @List.mapM_cons
#check @List.eraseDups_cons
#check @List.getElem?_set_ne
#check @List.mem_or_eq_of_mem_set
#check @List.nodup_append
#check @List.Nodup.filter
#check @List.take_left'
#check @List.set_getElem_self
#check @List.getElem?_set
#check @List.nodup_cons
#check @List.Nodup.sublist
#check @List.filter_sublist
#check @List.foldl_append
example : ("ab" : String) = "ab" := by decide
example : (some "ab" : Option String) ≠ none := by decide
