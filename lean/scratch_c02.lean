import VermouthModel.C02
open C02
example (w : Nat) (a : Nat) (rest : List Nat) (params : List String) (cm : Option String)
    (t : String) (h : t ∈ lineTokens (.inter w true (a :: rest) params cm)) :
    t ∈ (a :: rest).map (fun (i : Nat) => toString i) ∨ t ∈ params := by
  simp [lineTokens] at h ⊢
  trace_state
  sorry
