import VermouthModel.C13_Reader
import Std.Data.String.ToNat
#print String.isNat
#check @Nat.isNat_repr
#check @Nat.toNat?_repr
#print C13.allDigits
#eval C13.hdrName "x"
