import VermouthProps.C19Repair
#print axioms C19.Repair.surplus_removed
#print axioms C19.Repair.mutation_renames_all
#print axioms C19.Repair.old_behaviour_splits_residue
#print axioms C19.Repair.reference_atoms
