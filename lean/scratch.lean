#check @List.mem_takeWhile_imp
#check @List.head_dropWhile_not
#check @List.takeWhile_append_of_pos
open List in
#check @mem_of_mem_takeWhile
example (p : Nat → Bool) (l : List Nat) (x) (h : x ∈ l.takeWhile p) : p x = true := by
  exact?
