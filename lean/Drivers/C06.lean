import VermouthModel.C06
import VermouthModel.C06_Ismags
import VermouthModel.C06_Cosets
import Std.Data.HashMap
open Proto Iso C06

def nodeOf (t : Tok) : Option (Int × Int) := do
  match ← t.list? with
  | [k, c] => pure (← k.int?, ← c.int?)
  | _ => none

def edgeOf (t : Tok) : Option (Int × Int × Int) := do
  match ← t.list? with
  | [u, v, c] => pure (← u.int?, ← v.int?, ← c.int?)
  | _ => none

def graphOf (ns es : Tok) : Option Graph := do
  pure { nodes := ← (← ns.list?).mapM nodeOf, edges := ← (← es.list?).mapM edgeOf }

def pairOf (t : Tok) : Option (Int × Int) := nodeOf t

def pairsOf (t : Tok) : Option (List (Int × Int)) := do (← t.list?).mapM pairOf

def cosetOf (t : Tok) : Option (Int × List Int) := do
  match ← t.list? with
  | [k, vs] => pure (← k.int?, ← ints? vs)
  | _ => none

/-! answers of the TRANSCRIPTION (`VermouthModel/C06_Ismags.lean`) -/

def encSet (s : List Int) : String := encList ((C06I.sortInts s).map encInt)

/-- `_find_nodecolor_candidates()` and `_get_lookahead_candidates()`: per pattern node the single
node-colour set and the look-ahead set -/
def answerTCand (edgeNone : Bool) (g sg : Graph) : String :=
  let nc := C06I.findNodecolorCandidates g sg
  let la := C06I.getLookaheadCandidates edgeNone g sg
  encList (sg.keys.map fun u =>
    encList [encList ((C06I.Cands.get nc u).map encSet), encList ((C06I.Cands.get la u).map encSet)])

/-- a yielded mapping listed along the pattern nodes (total maps: the targets only) -/
def alongPattern (sg : Graph) (m : Map) : Map := sg.keys.filterMap fun u => (m.lookup u).map fun t => (u, t)

def answerTIso (edgeNone : Bool) (g sg : Graph) (C : List (Int × Int)) : String :=
  encList ((sortMaps ((C06I.findIsomorphisms edgeNone g sg C).map (alongPattern sg))).map encTotal)

def answerTLcs (g sg : Graph) (C : List (Int × Int)) : String :=
  encList ((sortMaps ((C06I.largestCommonSubgraph g sg C).map (alongPattern sg))).map encPartial)

/-! the transcription run with the choices RECORDED from the real run (yield SEQUENCES are compared) -/

/-- key of a search node: number of mapped nodes, the mapping sorted by pattern node, the nodes left to map sorted -/
def nodeKey (mapping : Map) (left : List Int) : List Int :=
  let ms := C06I.sortBy (fun (a b : Int × Int) => a.1 ≤ b.1) mapping
  (Int.ofNat mapping.length :: ms.flatMap fun p => [p.1, p.2]) ++ C06I.sortInts left

/-- a record `[mapping, left, sgn]`, or `[mapping, sgn]` when the nodes left are the complement of the mapping
(find_isomorphisms: `to_be_mapped` is always the whole pattern) -/
def recordOf (t : Tok) : Option (List Int × Int) := do
  match ← t.list? with
  | [m, l, s] => pure (nodeKey (← pairsOf m) (← ints? l), ← s.int?)
  | [m, s] => pure (nodeKey (← pairsOf m) [], ← s.int?)
  | _ => none

/-- not a node key of any generated graph: a refused choice makes `_map_nodes` yield nothing below it -/
def refused : Int := -1000003

/-- the node the real code started `_map_nodes` with at this search node - accepted only if it is a
possible result of the code's `min(..)` on the model's candidate table (`legalChoice`) -/
def pickRecorded (withLeft : Bool) (table : Std.HashMap (List Int) Int) (mapping : Map) (c : C06I.Cands)
    (left : List Int) : Int :=
  match table.get? (nodeKey mapping (if withLeft then left else [])) with
  | some s => if C06I.legalChoice c left s then s else refused
  | none => refused

def answerQIso (edgeNone : Bool) (g sg : Graph) (C : List (Int × Int)) (recs : List (List Int × Int)) : String :=
  let table := Std.HashMap.ofList recs
  encList (((C06I.findIsomorphismsWith (pickRecorded false table) edgeNone g sg C).map (alongPattern sg)).map encTotal)

def answerQLcs (g sg : Graph) (C : List (Int × Int)) (recs : List (List Int × Int)) : String :=
  let table := Std.HashMap.ofList recs
  encList (((C06I.largestCommonSubgraphWith (pickRecorded true table) g sg C).map (alongPattern sg)).map encPartial)

def answerTCons (cosets : List (Int × List Int)) : String :=
  encList (((C06I.makeConstraints cosets).mergeSort fun a b => a.1 < b.1 || (a.1 == b.1 && a.2 ≤ b.2)).map
    fun p => encList [encInt p.1, encInt p.2])

/-- the cosets dict `analyze_symmetry` returned, against the stabiliser-chain specification `cosetsExactB`
(plus: it is a dict of sets, the product of the coset sizes, and `|Aut|` as the verified reference counts it) -/
def answerTCosets (sg : Graph) (cosets : List (Int × List Int)) : String :=
  s!"exact={encBool (C06I.cosetsExactB sg cosets)} dict={encBool (C06I.cosetsDictB cosets)} prod={C06I.cosetProduct cosets} aut={(auts sg).length}"

def handle (_ : Unit) (toks : List Tok) : Unit × String :=
  let r : Option String :=
    match toks with
    | [Tok.str "iso", gn, ge, sn, se] => do
        pure (answerIso (← graphOf gn ge) (← graphOf sn se))
    | [Tok.str "sym", gn, ge, sn, se, out] => do
        let sg ← graphOf sn se
        let o ← (← out.list?).mapM ints?
        pure (answerSym (← graphOf gn ge) sg (o.map (totalOf sg)))
    | [Tok.str "subiso", gn, ge, sn, se] => do
        pure (answerSubIso (← graphOf gn ge) (← graphOf sn se))
    | [Tok.str "isiso", gn, ge, sn, se] => do
        pure (answerIsIso (← graphOf gn ge) (← graphOf sn se))
    | [Tok.str "lcs", gn, ge, sn, se] => do
        pure (answerLcs (← graphOf gn ge) (← graphOf sn se))
    | [Tok.str "lcssym", gn, ge, sn, se, out] => do
        let o ← (← out.list?).mapM (fun m => do (← m.list?).mapM pairOf)
        pure (answerLcsSym (← graphOf gn ge) (← graphOf sn se) o)
    | [Tok.str "tcand", Tok.int en, gn, ge, sn, se] => do
        pure (answerTCand (en != 0) (← graphOf gn ge) (← graphOf sn se))
    | [Tok.str "tiso", Tok.int en, gn, ge, sn, se, c] => do
        pure (answerTIso (en != 0) (← graphOf gn ge) (← graphOf sn se) (← pairsOf c))
    | [Tok.str "tlcs", gn, ge, sn, se, c] => do
        pure (answerTLcs (← graphOf gn ge) (← graphOf sn se) (← pairsOf c))
    | [Tok.str "qiso", Tok.int en, gn, ge, sn, se, c, recs] => do
        pure (answerQIso (en != 0) (← graphOf gn ge) (← graphOf sn se) (← pairsOf c) (← (← recs.list?).mapM recordOf))
    | [Tok.str "qlcs", gn, ge, sn, se, c, recs] => do
        pure (answerQLcs (← graphOf gn ge) (← graphOf sn se) (← pairsOf c) (← (← recs.list?).mapM recordOf))
    | [Tok.str "tbool", Tok.int which, Tok.int en, gn, ge, sn, se, c] => do
        let g ← graphOf gn ge
        let sg ← graphOf sn se
        let C ← pairsOf c
        pure (encBool (if which == 0 then C06I.subgraphIsIsomorphicWith (fun _ => C06I.pickMin) (en != 0) g sg C
                       else C06I.isIsomorphicWith (fun _ => C06I.pickMin) (en != 0) g sg C))
    | [Tok.str "tvalid", sn, se, c] => do
        pure (encBool (C06I.constraintsValidB (← graphOf sn se) (← pairsOf c)))
    | [Tok.str "tcosets", sn, se, cs] => do
        pure (answerTCosets (← graphOf sn se) (← (← cs.list?).mapM cosetOf))
    | [Tok.str "tcons", cs] => do
        pure (answerTCons (← (← cs.list?).mapM cosetOf))
    | _ => none
  ((), r.getD "bad-op")

def main : IO Unit := runDriver handle ()
