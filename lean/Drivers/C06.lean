import VermouthModel.C06
open Proto Iso C06

def nodeOf (t : Tok) : Option (Int × Int) := do
  match ← t.list? with
  | [k, c] => pure (← k.int?, ← c.int?)
  | _ => none

def edgeOf (t : Tok) : Option (Int × Int × Int) := do
  match ← t.list? with
  | [u, v, c] => pure (← u.int?, ← v.int?, ← c.int?)
  | _ => none

def graphOf (ns es : Tok) : Option Graph := do
  pure { nodes := ← (← ns.list?).mapM nodeOf, edges := ← (← es.list?).mapM edgeOf }

def pairOf (t : Tok) : Option (Int × Int) := nodeOf t

def handle (_ : Unit) (toks : List Tok) : Unit × String :=
  let r : Option String :=
    match toks with
    | [Tok.str "iso", gn, ge, sn, se] => do
        pure (answerIso (← graphOf gn ge) (← graphOf sn se))
    | [Tok.str "sym", gn, ge, sn, se, out] => do
        let sg ← graphOf sn se
        let o ← (← out.list?).mapM ints?
        pure (answerSym (← graphOf gn ge) sg (o.map (totalOf sg)))
    | [Tok.str "subiso", gn, ge, sn, se] => do
        pure (answerSubIso (← graphOf gn ge) (← graphOf sn se))
    | [Tok.str "isiso", gn, ge, sn, se] => do
        pure (answerIsIso (← graphOf gn ge) (← graphOf sn se))
    | [Tok.str "lcs", gn, ge, sn, se] => do
        pure (answerLcs (← graphOf gn ge) (← graphOf sn se))
    | [Tok.str "lcssym", gn, ge, sn, se, out] => do
        let o ← (← out.list?).mapM (fun m => do (← m.list?).mapM pairOf)
        pure (answerLcsSym (← graphOf gn ge) (← graphOf sn se) o)
    | _ => none
  ((), r.getD "bad-op")

def main : IO Unit := runDriver handle ()
