import VermouthModel.C18
import VermouthModel.C18_Map
open Proto C18

def posOf (x y z : Tok) : Option Pos := do pure (← x.int?, ← y.int?, ← z.int?)

def atomOf (t : Tok) : Option Atom := do
  match ← t.list? with
  | [k, an, r, o, rn, ch, ty, cg, x, y, z, ss] =>
    pure { key := ← k.int?, atomname := ← an.str?, resid := ← r.int?, oldResid := ← o.int?,
           resname := ← rn.str?, chain := ← ch.str?, atype := ← ty.str?, cg := ← cg.optInt?,
           pos := ← posOf x y z, ss := ← ss.optStr? }
  | _ => none

def edgeOf (t : Tok) : Option (Int × Int) := do
  match ← t.list? with
  | [a, b] => pure (← a.int?, ← b.int?)
  | _ => none

def contactOf (t : Tok) : Option Contact := do
  match ← t.list? with
  | [ra, ca, rb, cb] => pure { residA := ← ra.int?, chainA := ← ca.str?, residB := ← rb.int?, chainB := ← cb.str? }
  | _ => none

def encVS (v : VSite) : String :=
  encList [encInt v.key, encInt v.bb, encInt v.resid, encInt v.oldResid, encStr v.resname, encStr v.atype,
           encInt v.cg, encStr v.chain, encInt v.pos.1, encInt v.pos.2.1, encInt v.pos.2.2,
           encStr v.atomname, encInt v.charge, encInt v.mass, encOptStr v.ss]

def encOutcome : Outcome → String
  | .exit => "exit"
  | .keyerror => "keyerror"
  | .ok out =>
    "ok " ++ encList (out.map fun c => encList [encStr c.ta, encStr c.tb, encNat c.d2])
      ++ " " ++ encList (out.map fun c => encList [encInt c.bbA, encInt c.bbB])

def jobOf (t : Tok) : Option Job := do
  match ← t.list? with
  | [atoms, edges, contacts] =>
    pure { atoms := ← (← atoms.list?).mapM atomOf, edges := ← (← edges.list?).mapM edgeOf,
           contacts := ← (← contacts.list?).mapM contactOf }
  | _ => none

def encJob (vs : List VSite) (o : Outcome) : String :=
  "vs " ++ encList (vs.map encVS) ++ " inter "
    ++ encList ((vsInteractions vs).map fun p => encList [encInt p.1, encInt p.2])
    ++ " go " ++ encOutcome o

/-- one VirtualSiteCreator + one ComputeStructuralGoBias applied to the jobs in a row -/
def history (reset : Bool) (P : Params) (vsn : String) : List Job → Cache → List String
  | [], _ => []
  | j :: rest, cache =>
    let vs := addVirtualSites P.pre P.backbone vsn j.atoms
    let r := selectContactsS (if reset then [] else cache) P (withSites j.atoms vs) j.edges j.contacts
    encJob vs r.1 :: history reset P vsn rest r.2

def encMap : MapResult → String
  | .valueError => "valueerror"
  | .ioError => "ioerror"
  | .ok cs => "ok " ++ encList (cs.map fun c => encList [encInt c.residA, encStr c.chainA, encInt c.residB, encStr c.chainB])

def handle (_ : Unit) (toks : List Tok) : Unit × String :=
  let r : Option String :=
    match toks with
    | [Tok.str "go", pre, bb, vsn, atoms, edges, contacts, lp, lq, up, uq, sep] => do
        let P : Params := { pre := ← pre.str?, backbone := ← bb.str?,
                            low := { p := ← lp.int?, q := ← lq.nat? }, up := { p := ← up.int?, q := ← uq.nat? },
                            sep := ← sep.int? }
        let as ← (← atoms.list?).mapM atomOf
        let es ← (← edges.list?).mapM edgeOf
        let cs ← (← contacts.list?).mapM contactOf
        let (vs, o) := goPipeline P (← vsn.str?) as es cs
        pure ("vs " ++ encList (vs.map encVS) ++ " inter "
              ++ encList ((vsInteractions vs).map fun p => encList [encInt p.1, encInt p.2])
              ++ " go " ++ encOutcome o)
    | [Tok.str "gohist", reset, pre, bb, vsn, lp, lq, up, uq, sep, jobs] => do
        let P : Params := { pre := ← pre.str?, backbone := ← bb.str?,
                            low := { p := ← lp.int?, q := ← lq.nat? }, up := { p := ← up.int?, q := ← uq.nat? },
                            sep := ← sep.int? }
        let js ← (← jobs.list?).mapM jobOf
        pure (" | ".intercalate (history ((← reset.int?) != 0) P (← vsn.str?) js []))
    | [Tok.str "gomap", text] => do
        pure (encMap (readGoMap (← text.str?).toList))
    | _ => none
  ((), r.getD "bad-op")

def main : IO Unit := runDriver handle ()
