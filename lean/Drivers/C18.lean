import VermouthModel.C18
import VermouthModel.C18_Map
import VermouthModel.C18_Order
import VermouthModel.C18_Write
import VermouthModel.C18_MapWrite
import VermouthModel.C18_Inter
open Proto C18

def posOf (x y z : Tok) : Option Pos := do pure (← x.int?, ← y.int?, ← z.int?)

def atomOf (t : Tok) : Option Atom := do
  match ← t.list? with
  | [k, an, r, o, rn, ch, ty, cg, x, y, z, ss] =>
    pure { key := ← k.int?, atomname := ← an.str?, resid := ← r.int?, oldResid := ← o.int?,
           resname := ← rn.str?, chain := ← ch.str?, atype := ← ty.str?, cg := ← cg.optInt?,
           pos := ← posOf x y z, ss := ← ss.optStr? }
  | _ => none

def edgeOf (t : Tok) : Option (Int × Int) := do
  match ← t.list? with
  | [a, b] => pure (← a.int?, ← b.int?)
  | _ => none

def contactOf (t : Tok) : Option Contact := do
  match ← t.list? with
  | [ra, ca, rb, cb] => pure { residA := ← ra.int?, chainA := ← ca.str?, residB := ← rb.int?, chainB := ← cb.str? }
  | _ => none

def encVS (v : VSite) : String :=
  encList [encInt v.key, encInt v.bb, encInt v.resid, encInt v.oldResid, encStr v.resname, encStr v.atype,
           encInt v.cg, encStr v.chain, encInt v.pos.1, encInt v.pos.2.1, encInt v.pos.2.2,
           encStr v.atomname, encInt v.charge, encInt v.mass, encOptStr v.ss]

def encOutcome : Outcome → String
  | .exit => "exit"
  | .keyerror => "keyerror"
  | .ok out =>
    "ok " ++ encList (out.map fun c => encList [encStr c.ta, encStr c.tb, encNat c.d2])
      ++ " " ++ encList (out.map fun c => encList [encInt c.bbA, encInt c.bbB])

def jobOf (t : Tok) : Option Job := do
  match ← t.list? with
  | [atoms, edges, contacts] =>
    pure { atoms := ← (← atoms.list?).mapM atomOf, edges := ← (← edges.list?).mapM edgeOf,
           contacts := ← (← contacts.list?).mapM contactOf }
  | _ => none

def encJob (vs : List VSite) (o : Outcome) : String :=
  "vs " ++ encList (vs.map encVS) ++ " inter "
    ++ encList ((vsInteractions vs).map fun p => encList [encInt p.1, encInt p.2])
    ++ " go " ++ encOutcome o

/-- one VirtualSiteCreator + one ComputeStructuralGoBias applied to the jobs in a row -/
def history (reset : Bool) (P : Params) (vsn : String) : List Job → Cache → List String
  | [], _ => []
  | j :: rest, cache =>
    let vs := addVirtualSites P.pre P.backbone vsn j.atoms
    let r := selectContactsS (if reset then [] else cache) P (withSites j.atoms vs) j.edges j.contacts
    encJob vs r.1 :: history reset P vsn rest r.2


/-! ### `gox`: the pipeline on the whole state (interaction table, parameter tables); `chain` and
`_old_resid` may be `None` (they cross through `chainTag` / `oldSentinel`) -/

structure AtomW where
  a : Atom
  old : Option Int

def atomWOf (t : Tok) : Option AtomW := do
  match ← t.list? with
  | [k, an, r, o, rn, ch, ty, cg, x, y, z, ss] =>
    let old ← o.optInt?
    pure { a := { key := ← k.int?, atomname := ← an.str?, resid := ← r.int?, oldResid := old.getD 0,
                  resname := ← rn.str?, chain := chainTag (← ch.optStr?), atype := ← ty.str?, cg := ← cg.optInt?,
                  pos := ← posOf x y z, ss := ← ss.optStr? },
           old := old }
  | _ => none

def contactWOf (t : Tok) : Option Contact := do
  match ← t.list? with
  | [ra, ca, rb, cb] => pure { residA := ← ra.int?, chainA := chainTag (← ca.optStr?), residB := ← rb.int?,
                               chainB := chainTag (← cb.optStr?) }
  | _ => none

def interOf (t : Tok) : Option Inter := do
  match ← t.list? with
  | [atoms, tag] => pure { atoms := ← ints? atoms, tag := ← tag.str? }
  | _ => none

def sectionOf (t : Tok) : Option (String × List Inter) := do
  match ← t.list? with
  | [name, items] => pure (← name.str?, ← (← items.list?).mapM interOf)
  | _ => none

def preCount (t : Tok) : Option (Option Nat) :=
  match t with
  | Tok.none => some none
  | t => t.nat?.map some

def encVSW (sentinel : Int) (v : VSite) : String :=
  encList [encInt v.key, encInt v.bb, encInt v.resid,
           (if v.oldResid = sentinel then "-" else encInt v.oldResid), encStr v.resname, encStr v.atype,
           encInt v.cg, encOptStr (untagChain v.chain), encInt v.pos.1, encInt v.pos.2.1, encInt v.pos.2.2,
           encStr v.atomname, encInt v.charge, encInt v.mass, encOptStr v.ss]

def encTable (t : ITable) : String :=
  encList (t.map fun e => encList [encStr e.1, encList (e.2.map fun i => encList [encList (i.atoms.map encInt), encStr i.tag])])

def encAt : Option (List AtE) → String
  | none => "-"
  | some l => encList (l.map fun | .pre i => encStr s!"pre{i}" | .site k => encInt k)

def encNb : Option (List NbE) → String
  | none => "-"
  | some l => encList (l.map fun | .pre i => encStr s!"pre{i}" | .go a b d => encList [encStr a, encStr b, encNat d])

def encOutcomeX : Outcome → String
  | .exit => "exit"
  | .keyerror => "keyerror"
  | .ok out => "ok " ++ encList (out.map fun c => encList [encStr c.ta, encStr c.tb, encNat c.d2])

def qOf (t : Tok) : Option Q := do
  match ← t.list? with
  | [n, d] => pure { num := ← n.int?, den := ← d.nat? }
  | _ => none

def numOf (t : Tok) : Option Num :=
  match t with
  | Tok.none => some .bad
  | t => (qOf t).map Num.q

def optStrs? (t : Tok) : Option (Option (List String)) :=
  match t with
  | Tok.none => some none
  | t => (strs? t).map some

def metaOf (d n g c : Tok) : Option Meta := do
  pure { ifdef := ← d.optStr?, ifndef := ← n.optStr?, group := ← g.optStr?, comment := ← optStrs? c }

def nbOf (t : Tok) : Option NbParam := do
  match ← t.list? with
  | [atoms, s, e, d, n, g, c] =>
    pure { atoms := ← strs? atoms, sigma := ← numOf s, eps := ← numOf e, mt := ← metaOf d n g c }
  | _ => none

def atOf (t : Tok) : Option AtType := do
  match ← t.list? with
  | [ty, m, q, s, e, d, n, g, c] =>
    pure { atype := ← ty.optStr?, mass := ← m.optStr?, charge := ← q.optStr?, sigma := ← numOf s, eps := ← numOf e,
           mt := ← metaOf d n g c }
  | _ => none

def encErr : Option WErr → String
  | none => "ok"
  | some .valueError => "valueerror"
  | some .indexError => "indexerror"
  | some .typeError => "typeerror"
  | some .keyError => "keyerror"

def encWritten (w : Written) : String := encStr (String.ofList w.text) ++ " " ++ encErr w.err

def optList (f : Tok → Option α) (t : Tok) : Option (Option (List α)) :=
  match t with
  | Tok.none => some none
  | t => do pure (some (← (← t.list?).mapM f))

def pathsOf (t : Tok) : Option ItpPaths :=
  match t with
  | Tok.none => some .notDict
  | t => do
    let l ← (← t.list?).mapM fun e => do
      match ← e.list? with
      | [k, v] => pure (← k.str?, ← v.str?)
      | _ => none
    pure (.dict l)

def rowOf (t : Tok) : Option MapRow := do
  match ← t.list? with
  | [i1, i2, rna, ca, ra, rnb, cb, rb, dca, over, cont, stab, rcsu] =>
    pure { i1 := ← i1.int?, i2 := ← i2.int?, resnameA := ← rna.str?, chainA := ← ca.str?, residA := ← ra.int?,
           resnameB := ← rnb.str?, chainB := ← cb.str?, residB := ← rb.int?, dca := ← qOf dca,
           over := ← over.int?, cont := ← cont.int?, stab := ← stab.int?, rcsu := (← rcsu.int?) != 0 }
  | _ => none

/-- the real numbers of one emitted Go potential: sigma, epsilon (exact values), and `str(dist)` -/
def pairNumOf (t : Tok) : Option (Q × Q × String) := do
  match ← t.list? with
  | [s, e, d] => pure (← qOf s, ← qOf e, ← d.str?)
  | _ => none

def zipEntries : List Cand → List (Q × Q × String) → Option (List NbParam)
  | [], [] => some []
  | c :: cs, (s, e, d) :: ns => (zipEntries cs ns).map (nonbondEntry c s e d :: ·)
  | _, _ => none

def encMap : MapResult → String
  | .valueError => "valueerror"
  | .ioError => "ioerror"
  | .ok cs => "ok " ++ encList (cs.map fun c => encList [encInt c.residA, encStr c.chainA, encInt c.residB, encStr c.chainB])

def handle (_ : Unit) (toks : List Tok) : Unit × String :=
  let r : Option String :=
    match toks with
    | [Tok.str "go", pre, bb, vsn, atoms, edges, contacts, lp, lq, up, uq, sep] => do
        let P : Params := { pre := ← pre.str?, backbone := ← bb.str?,
                            low := { p := ← lp.int?, q := ← lq.nat? }, up := { p := ← up.int?, q := ← uq.nat? },
                            sep := ← sep.int? }
        let as ← (← atoms.list?).mapM atomOf
        let es ← (← edges.list?).mapM edgeOf
        let cs ← (← contacts.list?).mapM contactOf
        let (vs, o) := goPipeline P (← vsn.str?) as es cs
        pure ("vs " ++ encList (vs.map encVS) ++ " inter "
              ++ encList ((vsInteractions vs).map fun p => encList [encInt p.1, encInt p.2])
              ++ " go " ++ encOutcome o)
    | [Tok.str "goord", pre, bb, vsn, atoms, edges, contacts, lp, lq, up, uq, sep, orders] => do
        let P : Params := { pre := ← pre.str?, backbone := ← bb.str?,
                            low := { p := ← lp.int?, q := ← lq.nat? }, up := { p := ← up.int?, q := ← uq.nat? },
                            sep := ← sep.int? }
        let as ← (← atoms.list?).mapM atomOf
        let es ← (← edges.list?).mapM edgeOf
        let cs ← (← contacts.list?).mapM contactOf
        let os ← (← orders.list?).mapM ints?
        let (vs, o) := goPipelineOrd P (← vsn.str?) as es cs os
        pure (encJob vs o)
    | [Tok.str "gox", pre, bb, vsn, atoms, edges, contacts, lp, lq, up, uq, sep, orders, table, atpre, nbpre] => do
        let P : Params := { pre := ← pre.str?, backbone := ← bb.str?,
                            low := { p := ← lp.int?, q := ← lq.nat? }, up := { p := ← up.int?, q := ← uq.nat? },
                            sep := ← sep.int? }
        let ws ← (← atoms.list?).mapM atomWOf
        let es ← (← edges.list?).mapM edgeOf
        let cs ← (← contacts.list?).mapM contactWOf
        let os ← (← orders.list?).mapM ints?
        let tab ← (← table.list?).mapM sectionOf
        let sentinel := oldSentinel (ws.map (·.old)) (cs.map fun c => (c.residA, c.residB))
        let as := ws.map fun w => match w.old with
          | some _ => w.a
          | none => { w.a with oldResid := sentinel }
        let st : GoState := { atoms := as, edges := es, inter := tab,
                              atomtypes := (← preCount atpre).map fun n => (List.range n).map AtE.pre,
                              nonbond := (← preCount nbpre).map fun n => (List.range n).map NbE.pre }
        let (s', vs, o) := goPipelineM P (← vsn.str?) st cs os
        pure ("vs " ++ encList (vs.map (encVSW sentinel)) ++ " tab " ++ encTable s'.inter
              ++ " at " ++ encAt s'.atomtypes ++ " nb " ++ encNb s'.nonbond ++ " go " ++ encOutcomeX o)
    | [Tok.str "gohist", reset, pre, bb, vsn, lp, lq, up, uq, sep, jobs] => do
        let P : Params := { pre := ← pre.str?, backbone := ← bb.str?,
                            low := { p := ← lp.int?, q := ← lq.nat? }, up := { p := ← up.int?, q := ← uq.nat? },
                            sep := ← sep.int? }
        let js ← (← jobs.list?).mapM jobOf
        pure (" | ".intercalate (history ((← reset.int?) != 0) P (← vsn.str?) js []))
    | [Tok.str "wnb", c6, entries] => do
        pure (encWritten (writeNonbond ((← c6.int?) != 0) (← (← entries.list?).mapM nbOf)))
    | [Tok.str "wat", c6, entries] => do
        pure (encWritten (writeAtomtypes ((← c6.int?) != 0) (← (← entries.list?).mapM atOf)))
    | [Tok.str "wtop", c6, nmol, ats, nbs, paths] => do
        let r := goParamFiles ((← c6.int?) != 0) (← nmol.nat?) (← optList atOf ats) (← optList nbOf nbs) (← pathsOf paths)
        pure (encList (r.1.map fun f => encList [encStr f.1, encStr (String.ofList f.2.text)]) ++ " " ++ encErr r.2)
    | [Tok.str "gomapw", extra, version, rows] => do
        let ex := (← strs? extra).map String.toList
        let text := mapFileText ex (← version.str?) (← (← rows.list?).mapM rowOf)
        pure (encStr (String.ofList text) ++ " read " ++ encMap (readGoMap text))
    | [Tok.str "gofiles", pre, bb, vsn, atoms, edges, contacts, lp, lq, up, uq, sep, nums, tol, epsq] => do
        let P : Params := { pre := ← pre.str?, backbone := ← bb.str?,
                            low := { p := ← lp.int?, q := ← lq.nat? }, up := { p := ← up.int?, q := ← uq.nat? },
                            sep := ← sep.int? }
        let as ← (← atoms.list?).mapM atomOf
        let es ← (← edges.list?).mapM edgeOf
        let cs ← (← contacts.list?).mapM contactOf
        let ns ← (← nums.list?).mapM pairNumOf
        let tolq ← qOf tol
        let eq ← qOf epsq
        let (vs, o) := goPipeline P (← vsn.str?) as es cs
        match o with
        | .ok out =>
          match zipEntries out ns with
          | some entries =>
            pure ("at " ++ encWritten (writeAtomtypes false (atomtypesOf vs))
                  ++ " nb " ++ encWritten (writeNonbond false entries)
                  ++ " sigma " ++ encList ((out.zip ns).map fun p => encBool (sigmaOk tolq p.2.1 p.1.d2))
                  ++ " eps " ++ encList (ns.map fun p => encBool (p.2.1.same eq)))
          | none => pure "pair-count-mismatch"
        | _ => pure "aborted"
    | [Tok.str "gomap", text] => do
        pure (encMap (readGoMap (← text.str?).toList))
    | _ => none
  ((), r.getD "bad-op")

def main : IO Unit := runDriver handle ()
