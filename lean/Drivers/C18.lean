import VermouthModel.C18
open Proto C18

def posOf (x y z : Tok) : Option Pos := do pure (← x.int?, ← y.int?, ← z.int?)

def atomOf (t : Tok) : Option Atom := do
  match ← t.list? with
  | [k, an, r, o, rn, ch, ty, cg, x, y, z, ss] =>
    pure { key := ← k.int?, atomname := ← an.str?, resid := ← r.int?, oldResid := ← o.int?,
           resname := ← rn.str?, chain := ← ch.str?, atype := ← ty.str?, cg := ← cg.optInt?,
           pos := ← posOf x y z, ss := ← ss.optStr? }
  | _ => none

def edgeOf (t : Tok) : Option (Int × Int) := do
  match ← t.list? with
  | [a, b] => pure (← a.int?, ← b.int?)
  | _ => none

def contactOf (t : Tok) : Option Contact := do
  match ← t.list? with
  | [ra, ca, rb, cb] => pure { residA := ← ra.int?, chainA := ← ca.str?, residB := ← rb.int?, chainB := ← cb.str? }
  | _ => none

def encVS (v : VSite) : String :=
  encList [encInt v.key, encInt v.bb, encInt v.resid, encInt v.oldResid, encStr v.resname, encStr v.atype,
           encInt v.cg, encStr v.chain, encInt v.pos.1, encInt v.pos.2.1, encInt v.pos.2.2,
           encStr v.atomname, encInt v.charge, encInt v.mass, encOptStr v.ss]

def encOutcome : Outcome → String
  | .exit => "exit"
  | .keyerror => "keyerror"
  | .ok out =>
    "ok " ++ encList (out.map fun c => encList [encStr c.ta, encStr c.tb, encNat c.d2])
      ++ " " ++ encList (out.map fun c => encList [encInt c.bbA, encInt c.bbB])

def handle (_ : Unit) (toks : List Tok) : Unit × String :=
  let r : Option String :=
    match toks with
    | [Tok.str "go", pre, bb, vsn, atoms, edges, contacts, lp, lq, up, uq, sep] => do
        let P : Params := { pre := ← pre.str?, backbone := ← bb.str?,
                            low := { p := ← lp.int?, q := ← lq.nat? }, up := { p := ← up.int?, q := ← uq.nat? },
                            sep := ← sep.int? }
        let as ← (← atoms.list?).mapM atomOf
        let es ← (← edges.list?).mapM edgeOf
        let cs ← (← contacts.list?).mapM contactOf
        let (vs, o) := goPipeline P (← vsn.str?) as es cs
        pure ("vs " ++ encList (vs.map encVS) ++ " inter "
              ++ encList ((vsInteractions vs).map fun p => encList [encInt p.1, encInt p.2])
              ++ " go " ++ encOutcome o)
    | _ => none
  ((), r.getD "bad-op")

def main : IO Unit := runDriver handle ()
