import VermouthModel.C07
import VermouthModel.C07_Cli
import Generated.C07Names
open Proto C07

/-
requests
  run <files> <ops>                       -> per op: [ res pending snapshot ]
  cli <level> <counter> <specs> <files> <opens>  -> exit code, pending, snapshot
  free <files> <path>                     -> rendered first free path
  cliout <level> <counter> <specs> <files> <options> <facts> <contents>
                                          -> exit code, leftover, [ name mode ] of the pending table at the gate, snapshot
  countby <counter> <level|-> <xtype|->   -> CountingHandler.number_of_counts_by
  rawfin <files> <pending> <fuel|->       -> write() on a pending table given as is (white box): error branch, rest, snapshot
  rawclose <files> <pending>              -> close() on a pending table given as is: snapshot
options := [ x|- o|- xname|- sep go goWrite waterBias dssp haveMdtraj verbosity graph|- repair|- canon|- ]
           go := 0 off | 1 internal | 2 file ; goWrite := [ 0 ] | [ 1 ] | [ 2 path ] ; dssp := 0 off | 1 flag | 2 exe
facts   := [ [ class.. ] hasAtomtypes hasNonbond [ [ xchain.. ].. ] [ tmppath.. ] ]
pending := [ [ tmpno path mode ] .. ]
path   := [ 0 xname ] | [ 1 path n ] | [ 2 k ]
file   := [ path xcontent ]
op     := [ 0 path mode xdata ] | [ 1 fuel|- ] | [ 2 ]
mode   := 0 r | 1 w | 2 a | 3 r+ | 4 w+ | 5 a+ | 6 x
Contents are strings whose characters stand for bytes (latin-1) or opaque digests.
-/

partial def pathOf (t : Tok) : Option Path := do
  match ← t.list? with
  | [Tok.int 0, n] => pure (Path.base (← n.str?))
  | [Tok.int 1, p, n] => pure (Path.bak (← pathOf p) (← n.nat?))
  | [Tok.int 2, k] => pure (Path.tmp (← k.nat?))
  | _ => none

def render : Path → String
  | .base n => n
  | .bak p n => "#" ++ render p ++ "." ++ toString n ++ "#"
  | .tmp k => "tmp/" ++ toString k

def modeOf (t : Tok) : Option Mode := do
  match ← t.nat? with
  | 0 => pure .r | 1 => pure .w | 2 => pure .a | 3 => pure .rp | 4 => pure .wp | 5 => pure .ap | 6 => pure .x
  | _ => none

def modeNo : Mode → Nat
  | .r => 0 | .w => 1 | .a => 2 | .rp => 3 | .wp => 4 | .ap => 5 | .x => 6

def fileOf (t : Tok) : Option (Path × Bytes) := do
  match ← t.list? with
  | [p, c] => pure (← pathOf p, (← c.str?).toList)
  | _ => none

def opOf (t : Tok) : Option Op := do
  match ← t.list? with
  | [Tok.int 0, p, m, d] => pure (Op.open (← pathOf p) (← modeOf m) (← d.str?).toList)
  | [Tok.int 1, Tok.none] => pure (Op.finalize none)
  | [Tok.int 1, k] => pure (Op.finalize (some (← k.nat?)))
  | [Tok.int 2] => pure Op.close
  | _ => none

def openReqOf (t : Tok) : Option OpenReq := do
  match ← t.list? with
  | [p, m, d] => pure (← pathOf p, ← modeOf m, (← d.str?).toList)
  | _ => none

def encRes : Res → String
  | .ok => "ok"
  | .content c => "content:" ++ encStr (String.ofList c)
  | .notFound => "notfound"
  | .fileExists => "exists"
  | .keyError => "keyerror"

def snapshot (fs : FS) : String :=
  let l := fs.map (fun kv => (render kv.1, String.ofList kv.2))
  let l := l.mergeSort (fun a b => decide (a.1 ≤ b.1))
  encList (l.map fun kv => encList [encStr kv.1, encStr kv.2])

def encPending (l : List Entry) : String :=
  encList (l.map fun e => encList [encNat e.tmp, encStr (render e.dest), encNat (modeNo e.mode)])

def entryOf (t : Tok) : Option C08.Entry := do
  match ← t.list? with
  | [l, ty, c] => pure { level := ← l.nat?, type := ← ty.str?, count := ← c.nat? }
  | _ => none

def specOf (t : Tok) : Option C08.Spec := do
  match ← t.list? with
  | [ty, c] => pure (← ty.optStr?, ← c.optInt?)
  | _ => none

def optPathOf (t : Tok) : Option (Option Path) :=
  match t with
  | Tok.none => some none
  | t => (pathOf t).map some

def boolOf (t : Tok) : Option Bool := do
  match ← t.nat? with
  | 0 => pure false | 1 => pure true | _ => none

def optionsOf (t : Tok) : Option Options := do
  match ← t.list? with
  | [x, o, nm, sep, go, gw, wb, ds, hm, v, g, r, c] =>
      let go' ← (match ← go.nat? with | 0 => some GoOpt.off | 1 => some GoOpt.internal | 2 => some GoOpt.file | _ => none)
      let gw' ← (match ← gw.list? with
                 | [Tok.int 0] => some GoWrite.off
                 | [Tok.int 1] => some GoWrite.const
                 | [Tok.int 2, p] => (pathOf p).map GoWrite.named
                 | _ => none)
      let ds' ← (match ← ds.nat? with | 0 => some DsspOpt.off | 1 => some DsspOpt.flag | 2 => some DsspOpt.exe | _ => none)
      pure { outpath := ← optPathOf x, topPath := ← optPathOf o, molname := ← nm.optStr?, sep := ← boolOf sep, go := go',
             goWrite := gw', waterBias := ← boolOf wb, dssp := ds', haveMdtraj := ← boolOf hm, verbosity := ← v.nat?,
             writeGraph := ← optPathOf g, writeRepair := ← optPathOf r, writeCanon := ← optPathOf c }
  | _ => none

def factsOf (t : Tok) : Option Facts := do
  match ← t.list? with
  | [mc, ha, hn, chains, tmps] =>
      pure { molClass := ← nats? mc, hasAtomtypes := ← boolOf ha, hasNonbond := ← boolOf hn,
             dsspChains := ← (← chains.list?).mapM strs?, dsspTmp := ← (← tmps.list?).mapM pathOf }
  | _ => none

def pendingOf (t : Tok) : Option Entry := do
  match ← t.list? with
  | [k, p, m] => pure { tmp := ← k.nat?, dest := ← pathOf p, mode := ← modeOf m }
  | _ => none

def runAll (st : State) : List Op → List String
  | [] => []
  | o :: rest =>
      let (st', r) := stepOp st o
      encList [encRes r, encPending st'.pending, snapshot st'.fs] :: runAll st' rest

def handle (_ : Unit) (toks : List Tok) : Unit × String :=
  let r : Option String :=
    match toks with
    | [Tok.str "run", files, ops] => do
        let fs ← (← files.list?).mapM fileOf
        let os ← (← ops.list?).mapM opOf
        pure (encList (runAll (init fs) os))
    | [Tok.str "cli", lvl, counter, specs, files, opens] => do
        let level ← lvl.nat?
        let es ← (← counter.list?).mapM entryOf
        let ss ← (← specs.list?).mapM (fun g => do (← g.list?).mapM specOf)
        let fs ← (← files.list?).mapM fileOf
        let os ← (← opens.list?).mapM openReqOf
        let (st, code) := cliRun fs os es ss level
        -- the temporary files are not part of the observable result
        let user := st.fs.filter (fun kv => !kv.1.isTmp)
        pure (encList [encNat (exitStatus code), encInt (C08.leftover es ss level), snapshot user])
    | [Tok.str "cliout", lvl, counter, specs, files, opts, facts, conts] => do
        let level ← lvl.nat?
        let es ← (← counter.list?).mapM entryOf
        let ss ← (← specs.list?).mapM (fun g => do (← g.list?).mapM specOf)
        let fs ← (← files.list?).mapM fileOf
        let o ← optionsOf opts
        let f ← factsOf facts
        let cont ← (← conts.list?).mapM fileOf
        let (st, code) := cliOutRun generatedNames fs o f cont es ss level
        let pend := cliPendingAtGate generatedNames fs o f cont
        let user := st.fs.filter (fun kv => !kv.1.isTmp)
        pure (encList [encNat (exitStatus code), encInt (C08.leftover es ss level),
                       encList (pend.map fun e => encList [encStr (render e.dest), encNat (modeNo e.mode)]),
                       snapshot user])
    | [Tok.str "countby", counter, lvl, ty] => do
        let es ← (← counter.list?).mapM entryOf
        let l ← (match lvl with | Tok.none => some none | t => t.nat?.map some)
        pure (encNat (countBy es l (← ty.optStr?)))
    | [Tok.str "rawfin", files, pend, fuel] => do
        let fs ← (← files.list?).mapM fileOf
        let l ← (← pend.list?).mapM pendingOf
        let k ← (match fuel with | Tok.none => some (3 * l.length) | t => t.nat?)
        let r := finalizeFuel k fs l
        -- which entry, if any, made write() raise: the first one whose stored mode has none of a, w, +
        let bad := (l.take (l.length - r.2.length)).find? (fun e => (entrySteps [] e).isNone)
        let res := match bad with
          | some e => if e.mode.hasR then "assertion" else "keyerror"
          | none => "ok"
        pure (encList [encStr res, encPending r.2, snapshot r.1])
    | [Tok.str "rawclose", files, pend] => do
        let fs ← (← files.list?).mapM fileOf
        let l ← (← pend.list?).mapM pendingOf
        pure (snapshot (closeFs fs l))
    | [Tok.str "free", files, p] => do
        let fs ← (← files.list?).mapM fileOf
        pure (encStr (render (firstFree fs (← pathOf p))))
    | _ => none
  ((), r.getD "bad-op")

def main : IO Unit := runDriver handle ()
