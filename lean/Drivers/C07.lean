import VermouthModel.C07
open Proto C07

/-
requests
  run <files> <ops>                       -> per op: [ res pending snapshot ]
  cli <level> <counter> <specs> <files> <opens>  -> exit code, pending, snapshot
  free <files> <path>                     -> rendered first free path
path   := [ 0 xname ] | [ 1 path n ] | [ 2 k ]
file   := [ path xcontent ]
op     := [ 0 path mode xdata ] | [ 1 fuel|- ] | [ 2 ]
mode   := 0 r | 1 w | 2 a | 3 r+ | 4 w+ | 5 a+ | 6 x
Contents are strings whose characters stand for bytes (latin-1) or opaque digests.
-/

partial def pathOf (t : Tok) : Option Path := do
  match ← t.list? with
  | [Tok.int 0, n] => pure (Path.base (← n.str?))
  | [Tok.int 1, p, n] => pure (Path.bak (← pathOf p) (← n.nat?))
  | [Tok.int 2, k] => pure (Path.tmp (← k.nat?))
  | _ => none

def render : Path → String
  | .base n => n
  | .bak p n => "#" ++ render p ++ "." ++ toString n ++ "#"
  | .tmp k => "tmp/" ++ toString k

def modeOf (t : Tok) : Option Mode := do
  match ← t.nat? with
  | 0 => pure .r | 1 => pure .w | 2 => pure .a | 3 => pure .rp | 4 => pure .wp | 5 => pure .ap | 6 => pure .x
  | _ => none

def modeNo : Mode → Nat
  | .r => 0 | .w => 1 | .a => 2 | .rp => 3 | .wp => 4 | .ap => 5 | .x => 6

def fileOf (t : Tok) : Option (Path × Bytes) := do
  match ← t.list? with
  | [p, c] => pure (← pathOf p, (← c.str?).toList)
  | _ => none

def opOf (t : Tok) : Option Op := do
  match ← t.list? with
  | [Tok.int 0, p, m, d] => pure (Op.open (← pathOf p) (← modeOf m) (← d.str?).toList)
  | [Tok.int 1, Tok.none] => pure (Op.finalize none)
  | [Tok.int 1, k] => pure (Op.finalize (some (← k.nat?)))
  | [Tok.int 2] => pure Op.close
  | _ => none

def openReqOf (t : Tok) : Option OpenReq := do
  match ← t.list? with
  | [p, m, d] => pure (← pathOf p, ← modeOf m, (← d.str?).toList)
  | _ => none

def encRes : Res → String
  | .ok => "ok"
  | .content c => "content:" ++ encStr (String.ofList c)
  | .notFound => "notfound"
  | .fileExists => "exists"
  | .keyError => "keyerror"

def snapshot (fs : FS) : String :=
  let l := fs.map (fun kv => (render kv.1, String.ofList kv.2))
  let l := l.mergeSort (fun a b => decide (a.1 ≤ b.1))
  encList (l.map fun kv => encList [encStr kv.1, encStr kv.2])

def encPending (l : List Entry) : String :=
  encList (l.map fun e => encList [encNat e.tmp, encStr (render e.dest), encNat (modeNo e.mode)])

def entryOf (t : Tok) : Option C08.Entry := do
  match ← t.list? with
  | [l, ty, c] => pure { level := ← l.nat?, type := ← ty.str?, count := ← c.nat? }
  | _ => none

def specOf (t : Tok) : Option C08.Spec := do
  match ← t.list? with
  | [ty, c] => pure (← ty.optStr?, ← c.optInt?)
  | _ => none

def runAll (st : State) : List Op → List String
  | [] => []
  | o :: rest =>
      let (st', r) := stepOp st o
      encList [encRes r, encPending st'.pending, snapshot st'.fs] :: runAll st' rest

def handle (_ : Unit) (toks : List Tok) : Unit × String :=
  let r : Option String :=
    match toks with
    | [Tok.str "run", files, ops] => do
        let fs ← (← files.list?).mapM fileOf
        let os ← (← ops.list?).mapM opOf
        pure (encList (runAll (init fs) os))
    | [Tok.str "cli", lvl, counter, specs, files, opens] => do
        let level ← lvl.nat?
        let es ← (← counter.list?).mapM entryOf
        let ss ← (← specs.list?).mapM (fun g => do (← g.list?).mapM specOf)
        let fs ← (← files.list?).mapM fileOf
        let os ← (← opens.list?).mapM openReqOf
        let (st, code) := cliRun fs os es ss level
        -- the temporary files are not part of the observable result
        let user := st.fs.filter (fun kv => !kv.1.isTmp)
        pure (encList [encNat (exitStatus code), encInt (C08.leftover es ss level), snapshot user])
    | [Tok.str "free", files, p] => do
        let fs ← (← files.list?).mapM fileOf
        pure (encStr (render (firstFree fs (← pathOf p))))
    | _ => none
  ((), r.getD "bad-op")

def main : IO Unit := runDriver handle ()
