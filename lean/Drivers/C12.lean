import VermouthModel.C12
open Proto C12

def attrsOf (n r c : Tok) (ch : Tok := Tok.none) : Option Attrs := do
  pure { name := ← n.optStr?, resid := ← r.optInt?, cg := ← c.optInt?, chain := ← ch.optStr? }

def attrsOfList (t : Tok) : Option Attrs := do
  match ← t.list? with
  | [n, r, c] => attrsOf n r c
  | [n, r, c, ch] => attrsOf n r c ch
  | _ => none

def nodeOf (t : Tok) : Option (Int × Attrs) := do
  match ← t.list? with
  | [k, n, r, c] => pure (← k.int?, ← attrsOf n r c)
  | [k, n, r, c, ch] => pure (← k.int?, ← attrsOf n r c ch)
  | _ => none

/-- entry of `add_nodes_from(..., **common)`: a bare key `[k]` or `[k n r c ch]` -/
def nodeCOf (t : Tok) : Option (Int × Option Attrs) := do
  match ← t.list? with
  | [k] => pure (← k.int?, none)
  | [k, n, r, c, ch] => pure (← k.int?, some (← attrsOf n r c ch))
  | _ => none

def bnodeOf (t : Tok) : Option (String × Attrs) := do
  match ← t.list? with
  | [k, n, r, c] => pure (← k.str?, ← attrsOf n r c)
  | [k, n, r, c, ch] => pure (← k.str?, ← attrsOf n r c ch)
  | _ => none

def eattrsOf (o k : Tok) : Option EAttrs := do
  pure { order := ← o.optInt?, kind := ← k.optStr? }

/-- a template value: `-` = key absent, a plain int/str, `[ "e" ]` = explicit None,
`[ "c" v ... ]` = Choice, `[ "n" v ]` = NotDefinedOrNot -/
def predOf {α : Type} (val : Tok → Option (Option α)) (t : Tok) : Option (Option (Pred α)) :=
  match t with
  | Tok.none => some none
  | Tok.list (Tok.str "e" :: []) => some (some (.eq none))
  | Tok.list (Tok.str "c" :: vs) => do pure (some (.choice (← vs.mapM val)))
  | Tok.list [Tok.str "n", v] => do pure (some (.notDefOrNot (← val v)))
  | Tok.list _ => none
  | v => do pure (some (.eq (← val v)))

def tmplAttrsOf (t : Tok) : Option TAttrs := do
  match ← t.list? with
  | [n, r, c, ch] =>
    pure { name := ← predOf Tok.optStr? n, resid := ← predOf Tok.optInt? r,
           cg := ← predOf Tok.optInt? c, chain := ← predOf Tok.optStr? ch }
  | _ => none

def boolOf (t : Tok) : Option Bool := do pure ((← t.int?) != 0)

def fmtArgOf (t : Tok) : Option FmtArg := do
  (← t.list?).mapM (fun p => do
    match ← p.list? with
    | [n, k] => pure (← n.str?, ← k.int?)
    | _ => none)

def binterOf (l : List Tok) : Option BInter :=
  match l with
  | [ty, ats, pr, v] => do pure { ty := ← ty.str?, atoms := ← strs? ats, params := ← pr.str?, version := ← v.optInt? }
  | [ty, ats, pr, v, e] => do
      pure { ty := ← ty.str?, atoms := ← strs? ats, params := ← pr.str?, version := ← v.optInt?, edge := ← boolOf e }
  | _ => none

def bstepOf (t : Tok) : Option BStep := do
  match ← t.list? with
  | [Tok.str "atom", n, r, c, ch] => pure (.addAtom (← attrsOf n r c ch))
  | [Tok.str "node", k, n, r, c, ch] => pure (.addNode (← k.str?) (← attrsOf n r c ch))
  | [Tok.str "edge", u, v, o, k] => pure (.addEdge (← u.str?) (← v.str?) (← eattrsOf o k))
  | Tok.str "inter" :: rest => pure (.addInter (← binterOf rest))
  | Tok.str "raw" :: rest => pure (.rawInter (← binterOf rest))
  | [Tok.str "mkedges", ty] => pure (.makeEdges (← ty.str?))
  | [Tok.str "log", lvl, e] => pure (.log (← lvl.int?) (← e.str?))
  | _ => none

def pairLe (a b : Int × Int) : Bool := a.1 < b.1 || (a.1 == b.1 && a.2 ≤ b.2)

def dedupAdj : List (Int × Int) → List (Int × Int)
  | a :: b :: rest => if a = b then dedupAdj (b :: rest) else a :: dedupAdj (b :: rest)
  | l => l

def dumpFmtArg (fa : FmtArg) : String :=
  encList ((fa.mergeSort (fun a b => a.1 ≤ b.1)).map fun (n, k) => encList [encStr n, encInt k])

def dumpLogs (lg : Logs) : String :=
  let flat := (flattenLogs lg).mergeSort (fun a b => a.1 < b.1 || (a.1 == b.1 && a.2.1 ≤ b.2.1))
  encList (flat.map fun (l, e, args) => encList [encInt l, encStr e, encList (args.map dumpFmtArg)])

def dumpMol (m : Mol) : String :=
  let nodes := m.nodes.map fun (k, a) => encList [encInt k, encOptStr a.name, encOptInt a.resid, encOptInt a.cg, encOptStr a.chain]
  let es := dedupAdj ((m.edges.map fun (u, v) => (min u v, max u v)).mergeSort pairLe)
  let edges := es.map fun (u, v) =>
    let a := lookupE m.eattr u v
    encList [encInt u, encInt v, encOptInt a.order, encOptStr a.kind]
  let its := m.inters.mergeSort (fun a b => a.1 ≤ b.1)
  let inters := its.map fun (t, i) =>
    encList [encStr t, encList (i.atoms.map encInt), encStr i.params, encOptInt i.version, encBool i.edge]
  let cites := (m.cites.mergeSort (fun a b => a ≤ b)).map encStr
  encList [encList nodes, encList edges, encList inters, encList cites, encOptInt m.nrexcl, encOptStr m.ff, dumpLogs m.logs]

def dumpPool (p : Pool) : String := encList (p.map dumpMol)

def blockOf (nodes edges inters cites nrexcl : Tok) (ff : Tok := Tok.none) (logs : Tok := Tok.list []) : Option Block := do
  let ns ← (← nodes.list?).mapM bnodeOf
  let es ← (← edges.list?).mapM (fun e => do
    match ← e.list? with
    | [u, v] => pure ((← u.str?, ← v.str?), (none : Option EAttrs))
    | [u, v, o, k] => pure ((← u.str?, ← v.str?), some (← eattrsOf o k))
    | _ => none)
  let is ← (← inters.list?).mapM (fun t => do binterOf (← t.list?))
  let lg ← (← logs.list?).mapM (fun t => do
    match ← t.list? with
    | [l, e] => pure (← l.int?, ← e.str?)
    | _ => none)
  pure { nodes := ns, edges := es.map Prod.fst, inters := is, cites := ← strs? cites, nrexcl := ← nrexcl.optInt?,
         eattr := es.foldl (fun t x => match x.2 with
                                     | some a => upsertE t x.1.1 x.1.2 a
                                     | none => t) [], ff := ← ff.optStr?, logs := lg }

def opOf (toks : List Tok) : Option Op :=
  match toks with
  | [Tok.str "new", n] => do pure (.newMol (← n.optInt?))
  | [Tok.str "new", n, ff] => do pure (.newMol (← n.optInt?) (← ff.optStr?))
  | [Tok.str "addnode", m, k, n, r, c] => do pure (.addNode (← m.nat?) (← k.int?) (← attrsOf n r c))
  | [Tok.str "addnode", m, k, n, r, c, ch] => do pure (.addNode (← m.nat?) (← k.int?) (← attrsOf n r c ch))
  | [Tok.str "rmmatch", m, ty, atoms, pr, v, aa] => do
      let aa' ← match aa with
        | Tok.none => pure none
        | t => do pure (some (← (← t.list?).mapM tmplAttrsOf))
      pure (.removeMatching (← m.nat?) (← ty.str?)
        { atoms := ← ints? atoms, params := ← pr.optStr?, version := ← predOf Tok.optInt? v, atomAttrs := aa' })
  | [Tok.str "addnodes", m, l] => do pure (.addNodes (← m.nat?) (← (← l.list?).mapM nodeOf))
  | [Tok.str "addnodesc", m, l, common] => do
      pure (.addNodesC (← m.nat?) (← (← l.list?).mapM nodeCOf) (← attrsOfList common))
  | [Tok.str "rmnode", m, k] => do pure (.removeNode (← m.nat?) (← k.int?))
  | [Tok.str "rmnodes", m, ks] => do pure (.removeNodes (← m.nat?) (← ints? ks))
  | [Tok.str "addedge", m, u, v] => do pure (.addEdge (← m.nat?) (← u.int?) (← v.int?))
  | [Tok.str "addedgea", m, u, v, o, k] => do pure (.addEdgeA (← m.nat?) (← u.int?) (← v.int?) (← eattrsOf o k))
  | [Tok.str "addedges", m, l] => do
      pure (.addEdgesA (← m.nat?) (← (← l.list?).mapM (fun e => do
        match ← e.list? with
        | [u, v, o, k] => pure (← u.int?, ← v.int?, ← eattrsOf o k)
        | _ => none)))
  | [Tok.str "rmedge", m, u, v] => do pure (.removeEdge (← m.nat?) (← u.int?) (← v.int?))
  | [Tok.str "rmedges", m, l] => do
      pure (.removeEdges (← m.nat?) (← (← l.list?).mapM (fun e => do
        match ← ints? e with
        | [u, v] => pure (u, v)
        | _ => none)))
  | [Tok.str "mkedges", m, ty] => do pure (.makeEdgesType (← m.nat?) (← ty.str?))
  | [Tok.str "mkedgesall", m] => do pure (.makeEdgesAll (← m.nat?))
  | [Tok.str "clear", m] => do pure (.clear (← m.nat?))
  | [Tok.str "addinter", m, ty, atoms, pr, v] => do
      pure (.addInter (← m.nat?) (← ty.str?) (← ints? atoms) (← pr.str?) (← v.optInt?))
  | [Tok.str "addinter", m, ty, atoms, pr, v, e] => do
      pure (.addInter (← m.nat?) (← ty.str?) (← ints? atoms) (← pr.str?) (← v.optInt?) (← boolOf e))
  | [Tok.str "addorrep", m, ty, atoms, pr, v, cs] => do
      pure (.addOrReplace (← m.nat?) (← ty.str?) (← ints? atoms) (← pr.str?) (← v.optInt?) (← strs? cs))
  | [Tok.str "addorrep", m, ty, atoms, pr, v, cs, e] => do
      pure (.addOrReplace (← m.nat?) (← ty.str?) (← ints? atoms) (← pr.str?) (← v.optInt?) (← strs? cs) (← boolOf e))
  | [Tok.str "rminter", m, ty, atoms, v] => do
      pure (.removeInter (← m.nat?) (← ty.str?) (← ints? atoms) (← v.int?))
  | [Tok.str "prune", m, a, b] => do pure (.pruneEdges (← m.nat?) (← ints? a) (← ints? b))
  | [Tok.str "prunesel", m, na, nb] => do
      let nb' ← match nb with
        | Tok.none => pure none
        | t => do match ← strs? t with
          | [x] => pure (some x)
          | _ => none
      pure (.pruneByName (← m.nat?) (← na.str?) nb')
  | [Tok.str "addlog", m, lvl, e, args] => do
      pure (.addLog (← m.nat?) (← lvl.int?) (← e.str?) (← (← args.list?).mapM fmtArgOf))
  | [Tok.str "copy", m] => do pure (.copy (← m.nat?))
  | [Tok.str "subgraph", m, ks] => do pure (.subgraph (← m.nat?) (← ints? ks))
  | [Tok.str "merge", i, j] => do pure (.merge (← i.nat?) (← j.nat?))
  | [Tok.str "fromblock", nodes, edges, inters, cites, nrexcl, ao, ro, co] => do
      pure (.fromBlock (← blockOf nodes edges inters cites nrexcl) (← ao.int?) (← ro.int?) (← co.int?))
  | [Tok.str "fromblock", nodes, edges, inters, cites, nrexcl, ao, ro, co, ff, logs] => do
      pure (.fromBlock (← blockOf nodes edges inters cites nrexcl ff logs) (← ao.int?) (← ro.int?) (← co.int?))
  | [Tok.str "buildblock", cites, nrexcl, ff, steps, ao, ro, co] => do
      pure (.buildBlock { cites := ← strs? cites, nrexcl := ← nrexcl.optInt?, ff := ← ff.optStr? }
              (← (← steps.list?).mapM bstepOf) (← ao.int?) (← ro.int?) (← co.int?))
  | _ => none

def sopOf (toks : List Tok) : Option SOp :=
  match toks with
  | [Tok.str "newsys"] => some .newSys
  | [Tok.str "newsys", ff] => do pure (.newSys (← ff.optStr?))
  | [Tok.str "addmol", s, i] => do pure (.addMol (← s.nat?) (← i.nat?))
  | [Tok.str "copysys", s] => do pure (.copySys (← s.nat?))
  | [Tok.str "mergeall", s] => do pure (.mergeAll (← s.nat?))
  | [Tok.str "mergechains", s, cs, a] => do
      pure (.mergeChains (← s.nat?) (← (← cs.list?).mapM Tok.optStr?) ((← a.int?) != 0))
  | _ => (opOf toks).map SOp.mol

/-- the driver keeps the dump string of every pool member and recomputes it only for members that
changed (structural equality on `Mol`), which is what makes long histories affordable -/
abbrev Cache := List (Mol × String)

def dumpPoolC (cache : Cache) (p : Pool) : Cache :=
  (p.zipIdx).map fun (m, i) =>
    match cache[i]? with
    | some (m', s) => if m' == m then (m, s) else (m, dumpMol m)
    | none => (m, dumpMol m)

def dumpStateC (cache : Cache) (st : State) : String :=
  encList (cache.map Prod.snd) ++ " " ++ encList (st.systems.map fun l => encList (l.map encNat)) ++ " " ++
    encList (st.sysff.map encOptStr)

def handle (sc : State × Cache) (toks : List Tok) : (State × Cache) × String :=
  match toks with
  | [Tok.str "reset"] => (({}, []), "ok [ ]")
  | _ =>
    match sopOf toks with
    | none => (sc, "bad-op")
    | some op =>
      let (st', o) := sstep sc.1 op
      let cache := dumpPoolC sc.2 st'.pool
      ((st', cache), o.str ++ " " ++ dumpStateC cache st')

def main : IO Unit := runDriver handle (({}, []) : State × Cache)
