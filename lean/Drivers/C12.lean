import VermouthModel.C12
open Proto C12

def attrsOf (n r c : Tok) (ch : Tok := Tok.none) : Option Attrs := do
  pure { name := ← n.optStr?, resid := ← r.optInt?, cg := ← c.optInt?, chain := ← ch.optStr? }

def nodeOf (t : Tok) : Option (Int × Attrs) := do
  match ← t.list? with
  | [k, n, r, c] => pure (← k.int?, ← attrsOf n r c)
  | [k, n, r, c, ch] => pure (← k.int?, ← attrsOf n r c ch)
  | _ => none

def bnodeOf (t : Tok) : Option (String × Attrs) := do
  match ← t.list? with
  | [k, n, r, c] => pure (← k.str?, ← attrsOf n r c)
  | [k, n, r, c, ch] => pure (← k.str?, ← attrsOf n r c ch)
  | _ => none

def tmplAttrsOf (t : Tok) : Option Attrs := do
  match ← t.list? with
  | [n, r, c, ch] => attrsOf n r c ch
  | _ => none

def pairLe (a b : Int × Int) : Bool := a.1 < b.1 || (a.1 == b.1 && a.2 ≤ b.2)

def dedupAdj : List (Int × Int) → List (Int × Int)
  | a :: b :: rest => if a = b then dedupAdj (b :: rest) else a :: dedupAdj (b :: rest)
  | l => l

def dumpMol (m : Mol) : String :=
  let nodes := m.nodes.map fun (k, a) => encList [encInt k, encOptStr a.name, encOptInt a.resid, encOptInt a.cg, encOptStr a.chain]
  let es := dedupAdj ((m.edges.map fun (u, v) => (min u v, max u v)).mergeSort pairLe)
  let edges := es.map fun (u, v) => encList [encInt u, encInt v]
  let its := m.inters.mergeSort (fun a b => a.1 ≤ b.1)
  let inters := its.map fun (t, i) => encList [encStr t, encList (i.atoms.map encInt), encStr i.params, encInt i.version]
  let cites := (m.cites.mergeSort (fun a b => a ≤ b)).map encStr
  encList [encList nodes, encList edges, encList inters, encList cites, encOptInt m.nrexcl]

def dumpPool (p : Pool) : String := encList (p.map dumpMol)

def opOf (toks : List Tok) : Option Op :=
  match toks with
  | [Tok.str "new", n] => do pure (.newMol (← n.optInt?))
  | [Tok.str "addnode", m, k, n, r, c] => do pure (.addNode (← m.nat?) (← k.int?) (← attrsOf n r c))
  | [Tok.str "addnode", m, k, n, r, c, ch] => do pure (.addNode (← m.nat?) (← k.int?) (← attrsOf n r c ch))
  | [Tok.str "rmmatch", m, ty, atoms, pr, v, aa] => do
      let aa' ← match aa with
        | Tok.none => pure none
        | t => do pure (some (← (← t.list?).mapM tmplAttrsOf))
      pure (.removeMatching (← m.nat?) (← ty.str?)
        { atoms := ← ints? atoms, params := ← pr.optStr?, version := ← v.optInt?, atomAttrs := aa' })
  | [Tok.str "addnodes", m, l] => do pure (.addNodes (← m.nat?) (← (← l.list?).mapM nodeOf))
  | [Tok.str "rmnode", m, k] => do pure (.removeNode (← m.nat?) (← k.int?))
  | [Tok.str "rmnodes", m, ks] => do pure (.removeNodes (← m.nat?) (← ints? ks))
  | [Tok.str "addedge", m, u, v] => do pure (.addEdge (← m.nat?) (← u.int?) (← v.int?))
  | [Tok.str "addinter", m, ty, atoms, pr, v] => do
      pure (.addInter (← m.nat?) (← ty.str?) (← ints? atoms) (← pr.str?) (← v.int?))
  | [Tok.str "addorrep", m, ty, atoms, pr, v, cs] => do
      pure (.addOrReplace (← m.nat?) (← ty.str?) (← ints? atoms) (← pr.str?) (← v.int?) (← strs? cs))
  | [Tok.str "rminter", m, ty, atoms, v] => do
      pure (.removeInter (← m.nat?) (← ty.str?) (← ints? atoms) (← v.int?))
  | [Tok.str "prune", m, a, b] => do pure (.pruneEdges (← m.nat?) (← ints? a) (← ints? b))
  | [Tok.str "prunesel", m, na, nb] => do
      let nb' ← match nb with
        | Tok.none => pure none
        | t => do match ← strs? t with
          | [x] => pure (some x)
          | _ => none
      pure (.pruneByName (← m.nat?) (← na.str?) nb')
  | [Tok.str "copy", m] => do pure (.copy (← m.nat?))
  | [Tok.str "subgraph", m, ks] => do pure (.subgraph (← m.nat?) (← ints? ks))
  | [Tok.str "merge", i, j] => do pure (.merge (← i.nat?) (← j.nat?))
  | [Tok.str "fromblock", nodes, edges, inters, cites, nrexcl, ao, ro, co] => do
      let ns ← (← nodes.list?).mapM bnodeOf
      let es ← (← edges.list?).mapM (fun e => do
        match ← strs? e with
        | [u, v] => pure (u, v)
        | _ => none)
      let is ← (← inters.list?).mapM (fun t => do
        match ← t.list? with
        | [ty, ats, pr, v] => pure (← ty.str?, ← strs? ats, ← pr.str?, ← v.int?)
        | _ => none)
      pure (.fromBlock { nodes := ns, edges := es, inters := is, cites := ← strs? cites, nrexcl := ← nrexcl.optInt? }
              (← ao.int?) (← ro.int?) (← co.int?))
  | _ => none

def sopOf (toks : List Tok) : Option SOp :=
  match toks with
  | [Tok.str "newsys"] => some .newSys
  | [Tok.str "addmol", s, i] => do pure (.addMol (← s.nat?) (← i.nat?))
  | [Tok.str "copysys", s] => do pure (.copySys (← s.nat?))
  | [Tok.str "mergeall", s] => do pure (.mergeAll (← s.nat?))
  | [Tok.str "mergechains", s, cs, a] => do
      pure (.mergeChains (← s.nat?) (← (← cs.list?).mapM Tok.optStr?) ((← a.int?) != 0))
  | _ => (opOf toks).map SOp.mol

def dumpState (st : State) : String :=
  dumpPool st.pool ++ " " ++ encList (st.systems.map fun l => encList (l.map encNat))

def handle (st : State) (toks : List Tok) : State × String :=
  match toks with
  | [Tok.str "reset"] => ({}, "ok [ ]")
  | _ =>
    match sopOf toks with
    | none => (st, "bad-op")
    | some op =>
      let (st', o) := sstep st op
      (st', o.str ++ " " ++ dumpState st')

def main : IO Unit := runDriver handle ({} : State)
