import VermouthModel.C02
import VermouthModel.C02_Hist
import VermouthModel.C02_Call
import VermouthModel.C02_Repo
import Generated.C02Tables
import Generated.C02RepoTables
open Proto C02

def atomOf (t : Tok) : Option Atom := do
  match ← t.list? with
  | [k, aid, ty, ri, rn, an, cg, ch, ms] =>
    pure { key := ← k.int?, atomid := ← aid.optInt?, atype := ← ty.str?, resid := ← ri.str?,
           resname := ← rn.str?, atomname := ← an.str?, cgnr := ← cg.str?, charge := ← ch.str?,
           mass := ← ms.str? }
  | _ => none

def interOf (t : Tok) : Option Inter := do
  match ← t.list? with
  | [as, ps, d, nd, g, c] =>
    pure { atoms := ← ints? as, params := ← strs? ps, ifdef := ← d.optStr?, ifndef := ← nd.optStr?,
           group := ← g.optStr?, comment := ← c.optStr? }
  | _ => none

def namedOf {α} (f : Tok → Option α) (t : Tok) : Option (String × α) := do
  match ← t.list? with
  | [n, v] => pure (← n.str?, ← f v)
  | _ => none

def rawAtomOf (t : Tok) : Option RawAtom := do
  match ← t.list? with
  | [k, aid, ty, ri, rn, an, cg, ch, ms] =>
    pure { key := ← k.int?, atomid := ← aid.optInt?, atype := ← ty.optStr?, resid := ← ri.optStr?,
           resname := ← rn.optStr?, atomname := ← an.optStr?, cgnr := ← cg.optStr?, charge := ← ch.str?,
           mass := ← ms.str? }
  | _ => none

def optTable (t : Tok) : Option (Option (List (String × List String))) :=
  match t with
  | Tok.none => some none
  | t => do
    let l ← (← t.list?).mapM (fun e => do
      match ← e.list? with
      | [n, v] => pure (← n.str?, ← strs? v)
      | _ => none)
    pure (some l)

def callOf (args : List Tok) : Option Call := do
  match args with
  | [ma, mm, nr, hd, defs, atoms, inters, pa, poa, pm, pom] =>
    pure { moltypeArg := ← ma.optStr?, moltypeMeta := ← mm.optStr?, nrexcl := ← nr.optStr?,
           header := ← strs? hd,
           defines := ← (← defs.list?).mapM (fun e => do
             match ← e.list? with
             | [n, v] => pure (← n.str?, ← v.str?)
             | _ => none),
           atoms := ← (← atoms.list?).mapM rawAtomOf,
           inters := ← (← inters.list?).mapM (fun e => do
             match ← e.list? with
             | [n, v] => pure (← n.str?, ← (← v.list?).mapM interOf)
             | _ => none),
           preArg := ← optTable pa, postArg := ← optTable poa, preMeta := ← optTable pm,
           postMeta := ← optTable pom }
  | _ => none

def molOf (args : List Tok) : Option Mol := do
  match args with
  | [mt, nr, hd, defs, atoms, inters, pre, post] =>
    pure { moltype := ← mt.str?, nrexcl := ← nr.str?, header := ← strs? hd,
           defines := ← (← defs.list?).mapM (namedOf Tok.str?),
           atoms := ← (← atoms.list?).mapM atomOf,
           inters := ← (← inters.list?).mapM (namedOf (fun v => do (← v.list?).mapM interOf)),
           pre := ← (← pre.list?).mapM (namedOf strs?),
           post := ← (← post.list?).mapM (namedOf strs?) }
  | _ => none

def editOf (t : Tok) : Option Edit := do
  match ← t.list? with
  | [Tok.int 0, k, v] => pure (.setAtomid (← k.int?) (← v.optInt?))
  | [Tok.int 1, k, f, v] => pure (.setField (← k.int?) (← f.nat?) (← v.str?))
  | [Tok.int 2, a] => pure (.addNode (← atomOf a))
  | [Tok.int 3, k] => pure (.removeNode (← k.int?))
  | [Tok.int 4, n, i] => pure (.addInter (← n.str?) (← interOf i))
  | [Tok.int 5, n, idx] => pure (.removeInter (← n.str?) (← idx.nat?))
  | [Tok.int 6, n, idx, d, nd, g] =>
      pure (.setMeta (← n.str?) (← idx.nat?) (← d.optStr?) (← nd.optStr?) (← g.optStr?))
  | _ => none

def encErr : Err → String
  | .valueerror => "valueerror"
  | .keyerror => "keyerror"
  | .indexerror => "indexerror"

def encPErr : PErr → String
  | .badDirective => "badDirective" | .unbalanced => "unbalanced" | .noSection => "noSection"
  | .badMoltype => "badMoltype" | .badAtomRow => "badAtomRow" | .badIndex => "badIndex"
  | .unknownSection => "unknownSection" | .badArity => "badArity" | .badRef => "badRef"

def encParsed (p : Parsed) : String :=
  let mt := match p.moltype with
    | some (a, b) => encList [encStr a, encStr b]
    | none => "-"
  let atoms := encList (p.atoms.map fun a =>
    encList [encStr a.atype, encStr a.resid, encStr a.resname, encStr a.atomname, encStr a.cgnr,
             encOptStr a.charge, encOptStr a.mass])
  let inters := encList (p.inters.map fun i =>
    encList [encStr i.sect, encList (i.guard.map fun g => encList [encStr g.1, encBool g.2]),
             encList (i.atoms.map encNat), encList (i.params.map encStr)])
  "ok " ++ mt ++ " " ++ atoms ++ " " ++ inters

def isOkEq (r : Except PErr Parsed) (p : Parsed) : Bool :=
  match r with
  | .ok q => decide (q = p)
  | .error _ => false

def handle (_ : Unit) (toks : List Tok) : Unit × String :=
  let r : Option String :=
    match toks with
    | Tok.str "write" :: args => do
        -- optional 9th argument: the order in which the set of left-over sections was iterated
        let m ← molOf (args.take 8)
        let order ← match args.drop 8 with
          | [] => pure (remainingNames m)
          | [o] => strs? o
          | _ => none
        match writeOrd m order with
        | .error e => pure ("err " ++ encErr e)
        | .ok ls =>
          let text := render ls
          let wf := wellFormed arityTable m
          let co := charOk m
          let rtTok := isOkEq (parseTokens arityTable (ls.map lineTokens)) (canon m)
          let rtChr := isOkEq (parse arityTable text) (canon m)
          let perm := order.isPerm (remainingNames m)
          pure ("ok " ++ encBool wf ++ " " ++ encBool co ++ " " ++ encBool (!wf || rtTok) ++ " "
                ++ encBool (!(wf && co) || rtChr) ++ " " ++ encBool perm ++ " " ++ encStr text)
    | Tok.str "call" :: args => do
        -- the call with its arguments and meta resolved by the model; 12th argument = left-over order or `-`
        let c ← callOf (args.take 11)
        let order ← match args.drop 11 with
          | [Tok.none] => pure none
          | [o] => (strs? o).map some
          | _ => none
        match resolve c with
        | .error e => pure ("err " ++ encErr e)
        | .ok m =>
          match writeCall c order with
          | .error e => pure ("err " ++ encErr e)
          | .ok ls =>
            let text := render ls
            let wf := wellFormed arityTable m
            let co := charOk m
            let rtChr := isOkEq (parse arityTable text) (canon m)
            let perm := (order.getD (remainingNames m)).isPerm (remainingNames m)
            pure ("ok " ++ encBool wf ++ " " ++ encBool co ++ " " ++ encBool (!(wf && co) || rtChr) ++ " "
                  ++ encBool perm ++ " " ++ encStr text)
    | Tok.str "hist" :: rounds :: args => do
        let m ← molOf args
        let rs ← (← rounds.list?).mapM (fun r => do (← r.list?).mapM editOf)
        pure (encList ((session m rs).map fun o =>
          match o with
          | .ok ls => encList ["1", encStr (render ls)]
          | .error e => encList ["0", encStr (encErr e)]))
    | [Tok.str "parse", t] => do
        let s ← t.str?
        match parse arityTable s with
        | .ok p => pure (encParsed p)
        | .error e => pure ("perr " ++ encPErr e)
    | Tok.str "repo" :: args => do
        -- the composed model: the repo's own reader (C13 model) on what the writer model writes
        let m ← molOf (args.take 8)
        let order ← match args.drop 8 with
          | [] => pure (remainingNames m)
          | [o] => strs? o
          | _ => none
        let ro := Repo.repoOk (Repo.itpTab.map (·.path)) m
        match writeOrd m order with
        | .error e => pure ("err " ++ encErr e)
        | .ok ls =>
          let rt := match Repo.readITPx Repo.itpIdx Repo.itpTab (Repo.textLines (render ls)) with
            | some [(some n, (_, blk))] =>
              n == m.moltype && (match Repo.viewBlock blk with
                | some p => decide (p = canon m)
                | none => false)
              && blk.base.nodes.map (·.1) == (List.range m.atoms.length).map (fun (k : Nat) => toString k)
            | _ => false
          pure ("ok " ++ encBool ro ++ " " ++ encBool rt)
    | [Tok.str "reporead", t] => do
        -- the composed reader on an arbitrary text (compared with the real read_itp)
        let s ← t.str?
        match Repo.readITPx Repo.itpIdx Repo.itpTab (Repo.textLines s) with
        | none => pure "error"
        | some bs => pure ("ok " ++ encList (bs.map fun (k, (_, b)) =>
            encList [encOptStr k, encOptStr b.nrexcl,
              encList (b.base.nodes.map fun n => encList [encStr n.1, encList (n.2.map fun kv =>
                encList [encStr kv.1, match kv.2 with | .str v => encStr v | _ => "-"])]),
              encList (b.rows.map fun r => encList (r.map encStr)),
              encList (b.base.inters.map fun it =>
                encList [encStr it.sect,
                  (match it.pmeta with | some (c, g) => encList [encStr c, encStr g] | none => "-"),
                  encList (it.atoms.map encStr), encList (it.params.map encStr)])]))
    | Tok.str "canon" :: args => do
        let m ← molOf args
        pure (encParsed (canon m))
    | _ => none
  ((), r.getD "bad-op")

def main : IO Unit := runDriver handle ()
