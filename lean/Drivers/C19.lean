import VermouthModel.C19
import VermouthModel.C19_Repair
import VermouthModel.C19_Cli
import VermouthModel.C19_Pipeline
import VermouthModel.C19_Hist
import Generated.C19Table
open Proto C19

def optStrOf (t : Tok) : Option (Option Str) := do
  let o ← t.optStr?
  pure (o.map String.toList)

def encS (s : Str) : String := encStr (String.ofList s)
def encOS : Option Str → String
  | some s => encS s
  | none => "-"

def atomOf (t : Tok) : Option Atom := do
  match ← t.list? with
  | [k, ch, rid, rn, ic] =>
    pure { key := ← k.int?, res := { chain := ← optStrOf ch, resid := ← rid.optInt?, resname := ← optStrOf rn,
                                     icode := ← optStrOf ic }, mods := [], muts := [] }
  | [k, ch, rid, rn, ic, mo, mu] =>      -- an atom that is annotated already
    pure { key := ← k.int?, res := { chain := ← optStrOf ch, resid := ← rid.optInt?, resname := ← optStrOf rn,
                                     icode := ← optStrOf ic },
           mods := (← strs? mo).map String.toList, muts := (← strs? mu).map String.toList }
  | _ => none

def edgeOf (t : Tok) : Option (Int × Int) := do
  match ← t.list? with
  | [a, b] => pure (← a.int?, ← b.int?)
  | _ => none

def molOf (t : Tok) : Option Mol := do
  match ← t.list? with
  | [as, es] => pure { atoms := ← (← as.list?).mapM atomOf, edges := ← (← es.list?).mapM edgeOf }
  | _ => none

def pairOf (t : Tok) : Option (Str × Str) := do
  match ← t.list? with
  | [a, b] => pure ((← a.str?).toList, (← b.str?).toList)
  | _ => none

def specOf (t : Tok) : Option Spec := do
  match ← t.list? with
  | [ch, rn, rid, ic] => pure { chain := ← optStrOf ch, resname := ← optStrOf rn, resid := ← rid.optInt?,
                                icode := ← optStrOf ic }
  | _ => none

def encKind : Kind → String
  | .modification => encStr "modification"
  | .mutation => encStr "mutation"

def encSpec (s : Spec) : String :=
  encList [encOS s.chain, encOS s.resname, encOptInt s.resid, encOS s.icode]

def encMol (m : Mol) : String :=
  encList (m.atoms.map fun a => encList [encInt a.key, encList (a.mods.map encS), encList (a.muts.map encS)])

def encErr : Option Err → String
  | none => "ok"
  | some (.nameError k t) => "nameerror " ++ encKind k ++ " " ++ encS t
  | some .keyError => "keyerror"

/-! ### repair clause: C04 encoding of atoms / blocks -/

def rAttrOf (t : Tok) : Option (String × String) := do
  match ← t.list? with
  | [k, v] => pure (← k.str?, ← v.str?)
  | _ => none

def rAtomOf (t : Tok) : Option C04.Atom := do
  match ← t.list? with
  | [k, n, e, as, p] =>
      pure { key := ← k.int?, name := ← n.str?, elem := ← e.int?,
             attrs := ← (← as.list?).mapM rAttrOf, ptm := (← p.optInt?).map (· != 0) }
  | _ => none

def rBlockOf (t : Tok) : Option (String × C04.Block) := do
  match ← t.list? with
  | [n, ns, es] => pure (← n.str?, { nodes := ← (← ns.list?).mapM rAtomOf, edges := ← (← es.list?).mapM edgeOf })
  | _ => none

def optStrsOf (t : Tok) : Option (Option (List String)) :=
  match t with
  | Tok.none => some none
  | _ => (strs? t).map some

def encRefErr : C19.Repair.RefErr → String
  | .mutateTwice => "err mutatetwice"
  | .unknownBlock n => "err unknownblock " ++ encStr n
  | .unknownModification n => "err unknownmodification " ++ encStr n
  | .doesNotFit n => "err doesnotfit " ++ encStr n

def encOB : Option Bool → String
  | some true => "1"
  | some false => "0"
  | none => "-"

def encRAtom (a : C04.Atom) : String :=
  encList [encInt a.key, encStr a.name, encInt a.elem, encOB a.ptm, encOptStr (a.attrs.lookup "resname"),
           encOptStr (a.attrs.lookup "modifications")]

def encRef (ref : C04.Block) : String :=
  "ok " ++ encList (ref.nodes.map encRAtom) ++ " " ++ encList (ref.edges.map fun e => encList [encInt e.1, encInt e.2])

def namedMatchOf (_ref : C04.Block) (t : Tok) : Option (Int × Int) := do
  match ← t.list? with
  | [n, k] => pure (← n.int?, ← k.int?)
  | _ => none

def optOf (t : Tok) : Option Opt := do
  match ← t.list? with
  | [Tok.int 0, s] => pure (.mutate (← s.str?).toList)
  | [Tok.int 1, s] => pure (.modify (← s.str?).toList)
  | [Tok.int 2, s] => pure (.nterO (← s.str?).toList)
  | [Tok.int 3, s] => pure (.cterO (← s.str?).toList)
  | [Tok.int 4, _] => pure .nt
  | _ => none

def encLists (l : List (List Str)) : String := encList (l.map fun e => encList (e.map encS))

def encRequests (l : List Request) : String := encList (l.map fun r => encList [encSpec r.spec, encS r.target])

def handle (_ : Unit) (toks : List Tok) : Unit × String :=
  let r : Option String :=
    match toks with
    | [Tok.str "parse", s] => do
        match parseSpec (← s.str?).toList with
        | .ok sp => pure ("ok " ++ encSpec sp)
        | .valueError => pure "valueerror"
    | [Tok.str "format", s] => do
        pure (encS (formatSpec (← specOf s)))
    | [Tok.str "rmatch", s, m] => do
        let sp ← specOf s
        let mol ← molOf m
        pure (encList (mol.atoms.map fun a => encBool (residueMatches C19Table.proteinResidues sp mol a.res)))
    | [Tok.str "run", mods, muts, mlib, blib, mols] => do
        let mods ← (← mods.list?).mapM pairOf
        let muts ← (← muts.list?).mapM pairOf
        let lib : Lib := { protein := C19Table.proteinResidues,
                           modifications := (← strs? mlib).map String.toList,
                           blocks := (← strs? blib).map String.toList }
        let mols ← (← mols.list?).mapM molOf
        match parseRequests mods, parseRequests muts with
        | some pm, some pt =>
          let res := runSystem lib pm pt mols
          pure (encErr res.err ++ " " ++ encList (res.mols.map encMol) ++ " " ++
                encList (res.reports.map fun rp => encList [encS rp.mutmod, encKind rp.kind, encS rp.post]))
        | _, _ => pure "valueerror"
    | [Tok.str "history", mods, muts, mlib, blib, ops] => do
        let mods ← (← mods.list?).mapM pairOf
        let muts ← (← muts.list?).mapM pairOf
        let lib : Lib := { protein := C19Table.proteinResidues,
                           modifications := (← strs? mlib).map String.toList,
                           blocks := (← strs? blib).map String.toList }
        let ops ← (← ops.list?).mapM fun t => do
          match ← t.list? with
          | [Tok.int 0, ms] => pure (Op.system (← (← ms.list?).mapM molOf))
          | [Tok.int 1, m] => pure (Op.molecule (← molOf m))
          | _ => none
        match parseRequests mods, parseRequests muts with
        | some pm, some pt =>
          let rs := runHistory lib { mods := pm, muts := pt, counts := [] } ops
          pure (" | ".intercalate (rs.map fun r =>
            match r with
            | .system res => encErr res.err ++ " " ++ encList (res.mols.map encMol) ++ " " ++
                encList (res.reports.map fun rp => encList [encS rp.mutmod, encKind rp.kind, encS rp.post])
            | .molecule atoms err => encErr err ++ " " ++ encList [encMol { atoms := atoms, edges := [] }] ++ " [ ]"))
        | _, _ => pure "valueerror"
    | [Tok.str "history2", mods, muts, ops] => do
        let mods ← (← mods.list?).mapM pairOf
        let muts ← (← muts.list?).mapM pairOf
        let ops ← (← ops.list?).mapM fun t => do
          match ← t.list? with
          | [k, payload, mlib, blib] =>
            let lib : Lib := { protein := C19Table.proteinResidues,
                               modifications := (← strs? mlib).map String.toList,
                               blocks := (← strs? blib).map String.toList }
            match k with
            | Tok.int 0 => pure (lib, Op.system (← (← payload.list?).mapM molOf))
            | Tok.int 1 => pure (lib, Op.molecule (← molOf payload))
            | _ => none
          | _ => none
        match parseRequests mods, parseRequests muts with
        | some pm, some pt =>
          let rs := runHistoryLibs { mods := pm, muts := pt, counts := [] } ops
          pure (" | ".intercalate (rs.map fun r =>
            match r with
            | .system res => encErr res.err ++ " " ++ encList (res.mols.map encMol) ++ " " ++
                encList (res.reports.map fun rp => encList [encS rp.mutmod, encKind rp.kind, encS rp.post])
            | .molecule atoms err => encErr err ++ " " ++ encList [encMol { atoms := atoms, edges := [] }] ++ " [ ]"))
        | _, _ => pure "valueerror"
    | [Tok.str "pool", procs, mlib, blib, sys0, ops] => do
        let lib : Lib := { protein := C19Table.proteinResidues,
                           modifications := (← strs? mlib).map String.toList,
                           blocks := (← strs? blib).map String.toList }
        let procs ← (← procs.list?).mapM fun t => do
          match ← t.list? with
          | [mo, mu] =>
            match parseRequests (← (← mo.list?).mapM pairOf), parseRequests (← (← mu.list?).mapM pairOf) with
            | some pm, some pt => pure (pm, pt)
            | _, _ => none
          | _ => none
        let sys0 ← (← sys0.list?).mapM molOf
        let ops ← (← ops.list?).mapM fun t => do
          match ← t.list? with
          | [Tok.int 0, p, o] =>
            let (pm, pt) ← procs[← p.nat?]?
            pure (PoolOp.annotate pm pt (← o.nat?))
          | [Tok.int 1, o] => pure (PoolOp.copy (← o.nat?))
          | _ => none
        let hist := poolHistory lib [sys0] ops
        pure (" | ".intercalate (hist.map fun st =>
          encErr st.2 ++ " " ++ encList (st.1.map fun sys => encList (sys.map encMol))))
    | [Tok.str "cli", nt, given] => do
        let g ← (← given.list?).mapM pairOf
        let b ← nt.nat?
        pure (encList ((cliModifications (b != 0) g).map fun p => encList [encS p.1, encS p.2]))
    | [Tok.str "cli2", opts] => do
        let os ← (← opts.list?).mapM optOf
        match cliLists os with
        | .assemblyError => pure "assemblyerror"
        | .lists mods muts =>
          let ctor := match constructProc mods muts with
            | none => "valueerror"
            | some (rm, rt) => encList [encRequests rm, encRequests rt]
          -- the derived request lists must agree with the one-step definition
          let same := cliRequests os == none && (constructProc mods muts).isNone ||
                      (cliRequests os).isSome && (constructProc mods muts).isSome
          pure ("ok " ++ encLists mods ++ " " ++ encLists muts ++ " " ++ ctor ++ (if same then "" else " INCONSISTENT"))
    | [Tok.str "asm", nt, given] => do
        let g ← (← given.list?).mapM fun t => do pure ((← strs? t).map String.toList)
        match assembleModifications ((← nt.nat?) != 0) g with
        | none => pure "error"
        | some out => pure ("ok " ++ encLists out)
    | [Tok.str "reference", blocks, mods, rn, mu, ms] => do
        let ff : C19.Repair.FF := { blocks := ← (← blocks.list?).mapM rBlockOf, mods := ← (← mods.list?).mapM rBlockOf }
        match C19.Pipeline.referenceFull ff (← rn.str?) (← optStrsOf mu) (← optStrsOf ms) with
        | .ok ref => pure (encRef ref)
        | .error e => pure (encRefErr e)
    | [Tok.str "pipeline", rmods, rmuts, mlib, blib, mols, mi, ak, blocks, mods] => do
        let rmods ← (← rmods.list?).mapM pairOf
        let rmuts ← (← rmuts.list?).mapM pairOf
        let lib : Lib := { protein := C19Table.proteinResidues,
                           modifications := (← strs? mlib).map String.toList,
                           blocks := (← strs? blib).map String.toList }
        let mols ← (← mols.list?).mapM molOf
        let ff : C19.Repair.FF := { blocks := ← (← blocks.list?).mapM rBlockOf, mods := ← (← mods.list?).mapM rBlockOf }
        match parseRequests rmods, parseRequests rmuts with
        | some pm, some pt =>
          match C19.Pipeline.pipelineReference lib ff pm pt mols (← mi.nat?) (← ak.int?) with
          | .error (.annotate e) => pure ("annotate " ++ encErr (some e))
          | .error .noSuchAtom => pure "nosuchatom"
          | .error (.reference e) => pure (encRefErr e)
          | .ok (a, _) =>
            -- the reference with the `modifications` names, from the marks the C19 model left on the atom
            let rn := String.ofList (a.res.resname.getD [])
            match C19.Pipeline.referenceFull ff rn (C19.Pipeline.optRequests a.muts) (C19.Pipeline.optRequests a.mods) with
            | .ok ref => pure (encRef ref ++ " " ++ encList (a.muts.map encS) ++ " " ++ encList (a.mods.map encS))
            | .error e => pure (encRefErr e)
        | _, _ => pure "valueerror"
    | [Tok.str "repair1", blocks, mods, rn, mu, ms, nodes, edges, found, mtch, common] => do
        let ff : C19.Repair.FF := { blocks := ← (← blocks.list?).mapM rBlockOf, mods := ← (← mods.list?).mapM rBlockOf }
        match C19.Pipeline.referenceFull ff (← rn.str?) (← optStrsOf mu) (← optStrsOf ms) with
        | .error e => pure (encRefErr e)
        | .ok ref =>
          let m : C04.Mol := { nodes := ← (← nodes.list?).mapM rAtomOf, edges := ← (← edges.list?).mapM edgeOf }
          let M ← (← mtch.list?).mapM (namedMatchOf ref)
          let R := C19.Repair.residueOf ref (← ints? found) M (← (← common.list?).mapM rAttrOf)
          let o := C04.repairResidue m R
          pure ("ok " ++ encList ((C19.Repair.residueAtoms R o).map encRAtom) ++ " " ++
                encList (o.lost.map fun r => encStr (C04.nameOf ref r)))
    | _ => none
  ((), r.getD "bad-op")

def main : IO Unit := runDriver handle ()
