import VermouthModel.C13_Reader
import VermouthModel.C13_Mapping
import VermouthModel.C13_Backmap
import VermouthModel.C13_Dir
import Generated.C13Tables
open Proto C13

def strLe (a b : String) : Bool := decide (a ≤ b)

def reprJ : JVal → String
  | .int i => "i" ++ toString i
  | .str s => "s" ++ s
  | .bool b => if b then "b1" else "b0"
  | .null => "n"
  | .other r => "o" ++ r
  | .choice l => "c" ++ "|".intercalate l
  | .notP a => "p" ++ a

def encAttrs (a : Attrs) : String :=
  let sorted := a.mergeSort (fun x y => strLe x.1 y.1)
  encList (sorted.map fun kv => encList [encStr kv.1, encStr (reprJ kv.2)])

def jvalOf (t : Tok) : Option JVal := do
  match ← t.list? with
  | [Tok.int 0, Tok.int i] => pure (.int i)
  | [Tok.int 1, Tok.str s] => pure (.str s)
  | [Tok.int 2, Tok.int b] => pure (.bool (b != 0))
  | [Tok.int 3] => pure .null
  | [Tok.int 4, Tok.str s] => pure (.other s)
  | [Tok.int 5, l] => do pure (.choice (← strs? l))
  | [Tok.int 6, Tok.str s] => pure (.notP s)
  | _ => none

def attrsOf (t : Tok) : Option Attrs := do
  (← t.list?).mapM fun e => do
    match ← e.list? with
    | [k, v] => pure (← k.str?, ← jvalOf v)
    | _ => none

def encInters (l : List Inter) : String :=
  let sorted := l.mergeSort (fun x y => strLe x.sect y.sect)
  encList (sorted.map fun it => encList [encStr it.sect, encList (it.atoms.map encStr), encList (it.params.map encStr),
    encAttrs it.imeta])

def encIntersM (l : List Inter) : String :=
  let sorted := l.mergeSort (fun x y => strLe x.sect y.sect)
  encList (sorted.map fun it => encList [encStr it.sect, encList (it.atoms.map encStr), encList (it.params.map encStr),
    match it.pmeta with | some (c, g) => encList [encStr c, encStr g] | none => encList []])

def encNodes (c : Ctx) : String :=
  encList (c.nodes.map fun n => encList [encStr n.1, encAttrs n.2])

/-- the declared columns of a block atom as loaded: atype, resname, resid, charge_group -/
def encAtomCols (c : Ctx) : String :=
  encList (c.nodes.map fun n => encList (["atype", "resname", "resid", "charge_group"].map fun k =>
    encStr (match n.2.get k with | some v => reprJ v | none => "-")))

def encDump (d : Dump) : String :=
  let blocks := d.blocks.map fun (k, (_, c)) =>
    encList [encOptStr k, encList (c.nodes.map fun n => encStr n.1), encInters c.inters, encAtomCols c,
             encOptInt c.nrexcl]
  let links := d.links.map fun (_, c) => encList [encNodes c, encInters c.inters, encInters c.removed,
    encList (c.nonEdges.map fun e => encList [encStr e.1, encAttrs e.2]),
    encList (c.patterns.map fun pat => encList (pat.map fun a => encList [encStr a.1, encAttrs a.2])),
    encList ((c.features.mergeSort strLe).map encStr)]
  let mods := d.mods.map fun (k, (_, c)) => encList [encOptStr k, encNodes c, encInters c.inters]
  encList [encList blocks, encList links, encList mods]

def ffTab : List Entry := C13.Gen.ffKeys.map fun (p, m, c) => { path := p, method := m, ctype := c }
def itpTab : List Entry := C13.Gen.itpKeys.map fun (p, m, c) => { path := p, method := m, ctype := c }
def itpIdx : List (String × List Idx) :=
  C13.Gen.itpAtomIdxs.map fun (s, l) => (s, l.map fun (k, a, b) =>
    if k = 0 then Idx.pos a else if k = 1 then Idx.slice a (some b) else if k = 2 then Idx.slice a none else Idx.bad)

def lineOf (t : Tok) : Option Line := do
  match ← t.list? with
  | [Tok.int 0, Tok.str n] => pure (.header n)
  | [Tok.int 1, Tok.str s] => pure (.content s)
  | _ => none

/-- dispatcher-only parameters: a context is the list of (section path, text) it received -/
def bodyParams (T : List Path) (route : Path → Kind) : Params (List (Path × String)) Unit :=
  { T := T, route := route, handle := fun _ p t c => some (c ++ [(p, t)]),
    handleG := fun _ _ _ g => some g, fresh := fun _ => [], nameOf := fun c => (c.head?).map (·.2) }

def encBody (b : Nat × List (Path × String)) : String :=
  encList [encNat b.1, encList (b.2.map fun (p, t) => encList [encList (p.map encStr), encStr t])]

def mapParams : MParams (List (Path × String)) :=
  { T := C13.Gen.mapKeys, handle := fun p t c => some (c ++ [(p, t)]), fresh := [] }

/-! ### directories -/

def dirEntryOf (t : Tok) : Option C13.Dir.DirEntry := do
  match ← t.list? with
  | [n, Tok.int d, ls] => pure { name := ← n.str?, isDir := d != 0, lines := ← strs? ls }
  | _ => none

def encVars (v : C13.Dir.Vars) : String :=
  encList (v.map fun kv => encList [encStr kv.1, encStr (reprJ kv.2)])

def encFF (ff : C13.Dir.FF) : String :=
  encList [encDump { blocks := ff.blocks, links := ff.links, mods := ff.mods }, encVars ff.vars]

partial def treeOf (t : Tok) : Option C13.Dir.Tree := do
  match ← t.list? with
  | [Tok.int 0, n, ls] => pure (.file (← n.str?) (← strs? ls))
  | [Tok.int 1, n, ch] => pure (.dir (← n.str?) (← (← ch.list?).mapM treeOf))
  | _ => none

def encRKey : C13.Dir.RKey → String
  | .name s => encList [encNat 0, encStr s]
  | .names l => encList [encNat 1, encList (l.map encStr)]

def handle (_ : Unit) (toks : List Tok) : Unit × String :=
  let r : Option String :=
    match toks with
    | [Tok.str "tok", s] => do
        let s ← s.str?
        match tokenizeS s with
        | some ts => pure ("ok " ++ encList (ts.map encStr))
        | none => pure "error"
    | [Tok.str "prefix", r, a] => do
        let r ← r.str?
        let a ← attrsOf a
        match treatAtomPrefix r.toList a with
        | some (k, a') => pure ("ok " ++ encStr (String.ofList k) ++ " " ++ encAttrs a')
        | none => pure "error"
    | [Tok.str "atoms", sect, ts] => do
        let sect ← sect.optStr?
        let ts ← strs? ts
        let n := match sect with | some s => natomsOf C13.Gen.natoms s | none => none
        match baseAtoms n ts with
        | some (atoms, rest) =>
          pure ("ok " ++ encList (atoms.map fun (r, a) => encList [encStr r, encOptStr a]) ++ " " ++ encList (rest.map encStr))
        | none => pure "error"
    | [Tok.str "weights", m] => do
        let m ← (← m.list?).mapM fun e => do
          match ← e.list? with
          | [f, tos] => pure (← f.str?, ← strs? tos)
          | _ => none
        match computeWeights m with
        | some w =>
          let rows := w.map fun (t, f, fr) =>
            let g := Nat.gcd fr.num fr.den
            let g := if g = 0 then 1 else g
            encList [encStr t, encStr f, encNat (fr.num / g), encNat (fr.den / g)]
          pure ("ok " ++ encList (rows.mergeSort strLe))
        | none => pure "error"
    | [Tok.str "subst", ms, l] => do
        let ms ← (← ms.list?).mapM fun e => do
          match ← e.list? with
          | [n, v] => pure (← n.str?, ← v.str?)
          | _ => none
        let l ← l.str?
        match substMacros ms l with
        | some s => pure ("ok " ++ encStr s)
        | none => pure "error"
    | [Tok.str "ff", ls] => do
        let ls ← strs? ls
        match readFF C13.Gen.natoms ffTab ls with
        | some d => pure (encDump d)
        | none => pure "error"
    | [Tok.str "itp", ls] => do
        let ls ← strs? ls
        match readITP itpIdx itpTab ls with
        | some bs => pure (encList (bs.map fun (k, (_, c)) =>
            encList [encOptStr k, encList (c.nodes.map fun n => encStr n.1), encIntersM c.inters, encAtomCols c,
                     encOptInt c.nrexcl]))
        | none => pure "error"
    | [Tok.str "ffdisp", ls] => do
        -- dispatcher only (bodies), table and routes of the FF reader
        let ls ← (← ls.list?).mapM lineOf
        match ffRun (bodyParams (ffTab.map (·.path)) (routeOf ffTab)) () ls with
        | some s => pure (encList [encList (s.blocks.map fun b => encBody b.2), encList (s.links.map encBody),
                                   encList (s.mods.map fun b => encBody b.2)])
        | none => pure "error"
    | [Tok.str "mapdisp", ls] => do
        let ls ← (← ls.list?).mapM lineOf
        match mapRun mapParams ls with
        | some s => pure (encList (s.out.map encBody))
        | none => pure "error"
    | [Tok.str "ffdir", dir, name, ls] => do
        -- ForceField(directory, name) on a directory listing (os.scandir order)
        let dir ← dir.optStr?
        let name ← name.optStr?
        let ls ← (← ls.list?).mapM dirEntryOf
        let parsers := C13.Gen.ffDirParsers
        if dir.isSome && !C13.Dir.modelled parsers ls then pure "unmodelled"
        else match C13.Dir.ffInit C13.Gen.natoms ffTab parsers (dir.map fun d => (d, ls)) name with
          | some (n, ff) =>
            let order := if dir.isSome then C13.Dir.readOrder (parsers.map (·.1)) ls else []
            pure (encList [encStr n, encList (order.map fun e => encStr e.name), encFF ff])
          | none => pure "error"
    | [Tok.str "basedisp", tab, ls] => do
        -- the base SectionLineParser (finalize_section does nothing) on an arbitrary dispatch table
        let tab ← (← tab.list?).mapM strs?
        let ls ← (← ls.list?).mapM lineOf
        let P : MParams (List (Path × String)) :=
          { T := tab, handle := fun p t c => some (c ++ [(p, t)]), fresh := [] }
        match mapRun P ls with
        | some s => pure ("ok " ++ encList ((s.out.flatMap (·.2) ++ s.cur.2).map fun (p, t) =>
            encList [encList (p.map encStr), encStr t]))
        | none => pure "error"
    | [Tok.str "itpsplit", toks, idxs] => do
        -- ITPDirector._split_atoms_and_parameters(tokens, atom_idxs)
        let toks ← strs? toks
        let idxs ← (← idxs.list?).mapM fun e => do
          match ← e.list? with
          | [Tok.int 0, Tok.int a] => pure (Idx.pos a.toNat)
          | [Tok.int 1, Tok.int a, Tok.int b] => pure (Idx.slice a.toNat (some b.toNat))
          | [Tok.int 2, Tok.int a] => pure (Idx.slice a.toNat none)
          | _ => pure Idx.bad
        match idxPositions toks.length idxs with
        | some pos =>
          let atoms := pos.filterMap fun i => toks[i]?
          let params := (List.range toks.length).filterMap fun i => if pos.contains i then none else toks[i]?
          pure ("ok " ++ encList (atoms.map encStr) ++ " " ++ encList (params.map encStr))
        | none => pure "error"
    | [Tok.str "pyint", x] => do
        let x ← x.str?
        match pyInt? x with
        | some i => pure ("ok " ++ encInt i)
        | none => pure "error"
    | [Tok.str "findffs", pre, top] => do
        -- find_force_fields(directory, force_fields): pre := [ [name [lines of a .ff file read before]] ... ]
        let parsers := C13.Gen.ffDirParsers
        let pre ← (← pre.list?).mapM fun e => do
          match ← e.list? with
          | [n, ls] => do
            let ff ← C13.Dir.readFFInto C13.Gen.natoms ffTab {} (← strs? ls)
            pure (← n.str?, ff)
          | _ => none
        let top ← (← top.list?).mapM fun e => do
          match ← e.list? with
          | [n, Tok.int 0] => pure (← n.str?, (none : Option (List C13.Dir.DirEntry)))
          | [n, Tok.int 1, ls] => pure (← n.str?, some (← (← ls.list?).mapM dirEntryOf))
          | _ => none
        match C13.Dir.findForceFields C13.Gen.natoms ffTab parsers pre top with
        | some d => pure (encList (d.map fun (n, ff) => encList [encStr n, encFF ff]))
        | none => pure "error"
    | [Tok.str "splitext", n] => do
        let n ← n.str?
        pure (encList [encStr (C13.Dir.splitExt n), encStr (C13.Dir.basename n)])
    | [Tok.str "mapdir", blib, mlib, tree] => do
        let blib ← C13.Backmap.libOf blib
        let mlib ← C13.Mapping.libOf mlib
        let ch ← (← tree.list?).mapM treeOf
        let readMap := fun (ls : List String) => (C13.Backmap.readBackmap blib ls).map fun outs =>
          outs.map fun o => ((some o.fromFF, some o.toFF, C13.Dir.RKey.name o.name) : C13.Dir.MKey)
        let readMapping := fun (ls : List String) => (C13.Mapping.readMapping mlib ls).map fun es =>
          (C13.Mapping.collapse es).map fun k => ((k.1.1, k.1.2.1, C13.Dir.RKey.names k.1.2.2) : C13.Dir.MKey)
        match C13.Dir.readMapDir readMap readMapping ch with
        | some rows => pure (encList (rows.map fun (k, v) =>
            encList [encOptStr k.1, encOptStr k.2.1, encRKey k.2.2, encStr v.1, encNat v.2]))
        | none => pure "error"
    | Tok.str "mapping" :: args => C13.Mapping.handleOp args
    | Tok.str "backmap" :: args => C13.Backmap.handleOp args
    | _ => none
  ((), r.getD "bad-op")

def main : IO Unit := runDriver handle ()
