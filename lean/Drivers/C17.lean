import VermouthModel.C17
import VermouthModel.C17_Residues
import VermouthModel.C17_Dssp
import VermouthModel.C17_Select
import Generated.C17Tables
import Generated.C17Selectors
open Proto C17

def atomOf (t : Tok) : Option Atom := do
  match ← t.list? with
  | [k, r, v] =>
    let vv ← (match v with
      | Tok.none => some none
      | Tok.int i => if i < 0 then none else some (some i.toNat)
      | _ => none : Option (Option Nat))
    pure { key := ← k.int?, res := ← r.nat?, val := vv }
  | _ => none

def molOf (t : Tok) : Option Mol := do (← t.list?).mapM atomOf

def selMolOf (t : Tok) : Option (Bool × Mol) := do
  match ← t.list? with
  | [s, m] => pure ((← s.nat?) != 0, ← molOf m)
  | _ => none

def encVal : Option Nat → String
  | some n => encNat n
  | none => "-"

def encMol (m : Mol) : String := encList (m.map fun a => encVal a.val)

def encErr : Err → String
  | .valueerror => "valueerror"
  | .keyerror => "keyerror"

def encChars (o : Option (List Char)) : String :=
  match o with
  | some cs => encStr (String.ofList cs)
  | none => "keyerror"

def opOf (t : Tok) : Option Op := do
  match ← t.list? with
  | [Tok.int 0, sys] => pure (Op.system (← (← sys.list?).mapM selMolOf))
  | [Tok.int 1, sel, m] => pure (Op.molecule ((← sel.nat?) != 0) (← molOf m))
  | _ => none

def encRes : Res → String
  | .system (.ok s) => "ok " ++ encList (s.map fun p => encMol p.2)
  | .system (.error e) => encErr e
  | .molecule (.ok m) => "ok " ++ encMol m
  | .molecule (.error e) => encErr e

def optNatOf (v : Tok) : Option (Option Nat) :=
  match v with
  | Tok.none => some none
  | Tok.int i => if i < 0 then none else some (some i.toNat)
  | _ => none

def atom2Of (t : Tok) : Option Atom2 := do
  match ← t.list? with
  | [k, r, s, d] => pure { key := ← k.int?, res := ← r.nat?, src := ← optNatOf s, dst := ← optNatOf d }
  | _ => none

def mol2Of (t : Tok) : Option Mol2 := do (← t.list?).mapM atom2Of

def selMol2Of (t : Tok) : Option (Bool × Mol2) := do
  match ← t.list? with
  | [s, m] => pure ((← s.nat?) != 0, ← mol2Of m)
  | _ => none

def encMol2 (m : Mol2) : String := encList (m.map fun a => encList [encVal a.src, encVal a.dst])

def encMols2 : Except Err (List Mol2) → String
  | .ok ms => "ok " ++ encList (ms.map encMol2)
  | .error e => encErr e

def encDssp : Except DsspErr (List Char) → String
  | .ok cs => "ok " ++ encStr (String.ofList cs)
  | .error .stopIteration => "stopiteration"
  | .error .ioError => "ioerror"

/-! follow-up round: node tables with the residue attributes themselves -/

def pyValOf : Tok → Option PyVal
  | Tok.none => some PyVal.none
  | Tok.int i => some (PyVal.int i)
  | Tok.str s => some (PyVal.str s)
  | _ => none

def nodeOf (t : Tok) : Option Node := do
  match ← t.list? with
  | [k, c, ri, rn, ic, s, d] =>
    pure { key := ← k.int?, chain := ← pyValOf c, resid := ← pyValOf ri, resname := ← pyValOf rn,
           icode := ← pyValOf ic, src := ← optNatOf s, dst := ← optNatOf d }
  | _ => none

def nmolOf (t : Tok) : Option NMol := do (← t.list?).mapM nodeOf

def nsysOf (t : Tok) : Option (List NMol) := do (← t.list?).mapM nmolOf

def posOf (t : Tok) : Option (Option (List Bool)) :=
  match t with
  | Tok.none => some none
  | Tok.list l => (l.mapM Tok.nat?).map fun fs => some (fs.map (· != 0))
  | _ => none

def attrOf (t : Tok) : Option Attr :=
  match t with
  | Tok.int 0 => some Attr.chain
  | Tok.int 1 => some Attr.resid
  | Tok.int 2 => some Attr.resname
  | Tok.int 3 => some Attr.icode
  | _ => none

def editOf (t : Tok) : Option (Int × Attr × PyVal) := do
  match ← t.list? with
  | [k, a, v] => pure (← k.int?, ← attrOf a, ← pyValOf v)
  | _ => none

def eopOf (t : Tok) : Option EOp := do
  match ← t.list? with
  | [Tok.int 0, mi, es] => pure (EOp.edit (← mi.nat?) (← (← es.list?).mapM editOf))
  | [Tok.int 1, mi] => pure (EOp.iterres (← mi.nat?))
  | [Tok.int 2, mi] => pure (EOp.isprot (← mi.nat?))
  | [Tok.int 3, mi] => pure (EOp.seqres (← mi.nat?))
  | [Tok.int 4, mi, seq] => pure (EOp.annot (← mi.nat?) (← nats? seq))
  | [Tok.int 5, mi] => pure (EOp.convert (← mi.nat?))
  | [Tok.int 6, seq] => pure (EOp.annotsys (← nats? seq))
  | [Tok.int 7] => pure EOp.convsys
  | _ => none

def encObs : Obs → String
  | .nomol => "nomol"
  | .done => "ok"
  | .tuples t e => encList (t.map fun ks => encList (ks.map encInt)) ++ " exact " ++ encBool e
  | .flag b => encBool b
  | .seq l => encList (l.map encVal)
  | .err e => encErr e

def encEState (st : EState) : String :=
  encList (st.map fun ns => encList (ns.map fun n => encList [encVal n.src, encVal n.dst]))

def theTables : Tables := ⟨C17Tables.ssCg, C17Tables.patterns, C17Selectors.proteinResidues⟩

def encSel (sys : List NMol) : String :=
  " sel " ++ encList (sys.map fun ns => encBool (isProtein C17Selectors.proteinResidues ns))

def handle (_ : Unit) (toks : List Tok) : Unit × String :=
  let r : Option String :=
    match toks with
    | [Tok.str "conv", s] => do
        let s ← s.str?
        let a := convertImpl C17Tables.ssCg C17Tables.patterns s.toList
        let b := convertSpec C17Tables.ssCg s.toList
        pure ("impl " ++ encChars a ++ " spec " ++ encChars b)
    | [Tok.str "residues", m] => do
        let m ← molOf m
        pure (encList ((residues m).map fun r => encList ((keysOf m r).map encInt)))
    | [Tok.str "annotmol", m, seq] => do
        let m ← molOf m
        let seq ← nats? seq
        match annotateMol m seq with
        | .ok m' => pure ("ok " ++ encMol m')
        | .error e => pure (encErr e)
    | [Tok.str "annot", sys, seq] => do
        let sys ← (← sys.list?).mapM selMolOf
        let seq ← nats? seq
        match annotateSystem sys seq with
        | .ok s' => pure ("ok " ++ encList (s'.map fun p => encMol p.2))
        | .error e => pure (encErr e)
    | [Tok.str "annotold", sys, seq] => do
        let sys ← (← sys.list?).mapM selMolOf
        let seq ← nats? seq
        match annotateSystemOld sys seq with
        | .ok s' => pure ("ok " ++ encList (s'.map fun p => encMol p.2))
        | .error e => pure (encErr e)
    | [Tok.str "history", seq, ops] => do
        let seq ← nats? seq
        let ops ← (← ops.list?).mapM opOf
        pure (" | ".intercalate ((runHistory { sequence := seq } ops).map encRes))
    | [Tok.str "convmol", m] => do
        let m ← molOf m
        match convertAnnotation C17Tables.ssCg C17Tables.patterns m with
        | .ok m' => pure ("ok " ++ encMol m')
        | .error e => pure (encErr e)
    | [Tok.str "pyset", ks] => do
        let ks ← ints? ks
        pure (encList ((pySetIter ks).map encInt) ++ " exact " ++ encBool (setOrderExact ks))
    | [Tok.str "iterres", m] => do
        let m ← molOf m
        pure (encList ((iterResidues m).map fun p => encList (p.2.map encInt))
          ++ " exact " ++ encBool (iterResiduesExact m))
    | [Tok.str "seqres", m] => do
        let m ← molOf m
        pure (encList ((seqFromResiduesCode m).map encVal))
    | [Tok.str "annotmol2", m, seq] => do
        let m ← molOf m
        let seq ← nats? seq
        match annotateMolCode m seq with
        | .ok m' => pure ("ok " ++ encMol m')
        | .error e => pure (encErr e)
    | [Tok.str "convmol2", m] => do
        let m ← mol2Of m
        match convertAnnotationCode C17Tables.ssCg C17Tables.patterns m with
        | .ok m' => pure ("ok " ++ encMol2 m')
        | .error e => pure (encErr e)
    | [Tok.str "martini", sys] => do
        let sys ← (← sys.list?).mapM mol2Of
        pure (encMols2 (annotateMartiniSystem C17Tables.ssCg C17Tables.patterns sys))
    | [Tok.str "dssp", prot, m, pos, ss] => do
        let m ← molOf m
        let pos ← nats? pos
        let ss ← nats? ss
        let prot := (← prot.nat?) != 0
        let hasPos := pos.map (· != 0)
        let inp := match dsspInput prot m hasPos with
          | none => "-"
          | some c => encList ((iterResidues c).map fun p => encList (p.2.map encInt))
        match annotateDssp prot m hasPos ss with
        | .ok m' => pure ("ok " ++ encMol m' ++ " input " ++ inp)
        | .error e => pure (encErr e ++ " input " ++ inp)
    | [Tok.str "cliss", sys, ss] => do
        let sys ← (← sys.list?).mapM selMol2Of
        let ss ← ss.str?
        pure (encMols2 (cliSs C17Tables.ssCg C17Tables.patterns sys ss.toList))
    | [Tok.str "clicollagen", sys] => do
        let sys ← (← sys.list?).mapM selMol2Of
        pure (encMols2 (cliCollagen sys))
    | [Tok.str "clidssp", sys] => do
        let sys ← (← sys.list?).mapM fun t => do
          match ← t.list? with
          | [prot, m, pos, ss] =>
            pure ((← prot.nat?) != 0, ← mol2Of m, (← nats? pos).map (· != 0), ← nats? ss)
          | _ => none
        pure (encMols2 (cliDssp C17Tables.ssCg C17Tables.patterns sys))
    | [Tok.str "savefile", cs] => do
        let cs ← (← cs.list?).mapM fun t =>
          match t with
          | Tok.list [] => some none
          | Tok.list [c] => (c.optStr?).map some
          | _ => none
        match savefileName cs with
        | .ok n => pure ("ok " ++ encStr n)
        | .error .indexError => pure "indexerror"
        | .error .valueError => pure "valueerror"
    | [Tok.str "readdssp", ls] => do
        let ls ← (← ls.list?).mapM Tok.str?
        pure (encDssp (readDssp2 (ls.map String.toList)))
    | [Tok.str "isprot", m] => do
        let ns ← nmolOf m
        pure (encBool (isProtein C17Selectors.proteinResidues ns) ++ " all " ++ encBool (selectAll ns))
    | [Tok.str "haspos", ps] => do
        let ps ← (← ps.list?).mapM posOf
        pure (encList (ps.map fun p => encBool (hasPosition p)))
    | [Tok.str "selsys", sys, seq] => do
        let sys ← nsysOf sys
        let seq ← nats? seq
        match annotateSystemN C17Selectors.proteinResidues sys seq with
        | .ok s' => pure ("ok " ++ encList (s'.map fun p => encMol p.2) ++ encSel sys)
        | .error e => pure (encErr e ++ encSel sys)
    | [Tok.str "cliss3", sys, ss] => do
        let sys ← nsysOf sys
        let ss ← ss.str?
        pure (encMols2 (cliSsN C17Tables.ssCg C17Tables.patterns C17Selectors.proteinResidues sys ss.toList) ++ encSel sys)
    | [Tok.str "clicollagen3", sys] => do
        let sys ← nsysOf sys
        pure (encMols2 (cliCollagenN C17Selectors.proteinResidues sys) ++ encSel sys)
    | [Tok.str "clidssp3", sys] => do
        let sys ← (← sys.list?).mapM fun t => do
          match ← t.list? with
          | [m, pos, ss] => pure ((← nmolOf m, ← (← pos.list?).mapM posOf, ← nats? ss) : NMol × List (Option (List Bool)) × List Nat)
          | _ => none
        pure (encMols2 (cliDsspN C17Tables.ssCg C17Tables.patterns C17Selectors.proteinResidues sys)
          ++ encSel (sys.map (·.1))
          ++ " clean " ++ encList (sys.map fun p => encList ((cleanKeys p.1 p.2.1).map encInt)))
    | [Tok.str "edithist", sys, ops] => do
        let sys ← nsysOf sys
        let ops ← (← ops.list?).mapM eopOf
        pure (" | ".intercalate ((runEdits theTables sys ops).map fun r => encObs r.1 ++ " ; " ++ encEState r.2))
    | _ => none
  ((), r.getD "bad-op")

def main : IO Unit := runDriver handle ()
