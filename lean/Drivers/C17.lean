import VermouthModel.C17
import Generated.C17Tables
open Proto C17

def atomOf (t : Tok) : Option Atom := do
  match ← t.list? with
  | [k, r, v] =>
    let vv ← (match v with
      | Tok.none => some none
      | Tok.int i => if i < 0 then none else some (some i.toNat)
      | _ => none : Option (Option Nat))
    pure { key := ← k.int?, res := ← r.nat?, val := vv }
  | _ => none

def molOf (t : Tok) : Option Mol := do (← t.list?).mapM atomOf

def selMolOf (t : Tok) : Option (Bool × Mol) := do
  match ← t.list? with
  | [s, m] => pure ((← s.nat?) != 0, ← molOf m)
  | _ => none

def encVal : Option Nat → String
  | some n => encNat n
  | none => "-"

def encMol (m : Mol) : String := encList (m.map fun a => encVal a.val)

def encErr : Err → String
  | .valueerror => "valueerror"
  | .keyerror => "keyerror"

def encChars (o : Option (List Char)) : String :=
  match o with
  | some cs => encStr (String.ofList cs)
  | none => "keyerror"

def opOf (t : Tok) : Option Op := do
  match ← t.list? with
  | [Tok.int 0, sys] => pure (Op.system (← (← sys.list?).mapM selMolOf))
  | [Tok.int 1, sel, m] => pure (Op.molecule ((← sel.nat?) != 0) (← molOf m))
  | _ => none

def encRes : Res → String
  | .system (.ok s) => "ok " ++ encList (s.map fun p => encMol p.2)
  | .system (.error e) => encErr e
  | .molecule (.ok m) => "ok " ++ encMol m
  | .molecule (.error e) => encErr e

def handle (_ : Unit) (toks : List Tok) : Unit × String :=
  let r : Option String :=
    match toks with
    | [Tok.str "conv", s] => do
        let s ← s.str?
        let a := convertImpl C17Tables.ssCg C17Tables.patterns s.toList
        let b := convertSpec C17Tables.ssCg s.toList
        pure ("impl " ++ encChars a ++ " spec " ++ encChars b)
    | [Tok.str "residues", m] => do
        let m ← molOf m
        pure (encList ((residues m).map fun r => encList ((keysOf m r).map encInt)))
    | [Tok.str "annotmol", m, seq] => do
        let m ← molOf m
        let seq ← nats? seq
        match annotateMol m seq with
        | .ok m' => pure ("ok " ++ encMol m')
        | .error e => pure (encErr e)
    | [Tok.str "annot", sys, seq] => do
        let sys ← (← sys.list?).mapM selMolOf
        let seq ← nats? seq
        match annotateSystem sys seq with
        | .ok s' => pure ("ok " ++ encList (s'.map fun p => encMol p.2))
        | .error e => pure (encErr e)
    | [Tok.str "annotold", sys, seq] => do
        let sys ← (← sys.list?).mapM selMolOf
        let seq ← nats? seq
        match annotateSystemOld sys seq with
        | .ok s' => pure ("ok " ++ encList (s'.map fun p => encMol p.2))
        | .error e => pure (encErr e)
    | [Tok.str "history", seq, ops] => do
        let seq ← nats? seq
        let ops ← (← ops.list?).mapM opOf
        pure (" | ".intercalate ((runHistory { sequence := seq } ops).map encRes))
    | [Tok.str "convmol", m] => do
        let m ← molOf m
        match convertAnnotation C17Tables.ssCg C17Tables.patterns m with
        | .ok m' => pure ("ok " ++ encMol m')
        | .error e => pure (encErr e)
    | _ => none
  ((), r.getD "bad-op")

def main : IO Unit := runDriver handle ()
