import VermouthModel.C17
import VermouthModel.C17_Residues
import VermouthModel.C17_Dssp
import Generated.C17Tables
open Proto C17

def atomOf (t : Tok) : Option Atom := do
  match ← t.list? with
  | [k, r, v] =>
    let vv ← (match v with
      | Tok.none => some none
      | Tok.int i => if i < 0 then none else some (some i.toNat)
      | _ => none : Option (Option Nat))
    pure { key := ← k.int?, res := ← r.nat?, val := vv }
  | _ => none

def molOf (t : Tok) : Option Mol := do (← t.list?).mapM atomOf

def selMolOf (t : Tok) : Option (Bool × Mol) := do
  match ← t.list? with
  | [s, m] => pure ((← s.nat?) != 0, ← molOf m)
  | _ => none

def encVal : Option Nat → String
  | some n => encNat n
  | none => "-"

def encMol (m : Mol) : String := encList (m.map fun a => encVal a.val)

def encErr : Err → String
  | .valueerror => "valueerror"
  | .keyerror => "keyerror"

def encChars (o : Option (List Char)) : String :=
  match o with
  | some cs => encStr (String.ofList cs)
  | none => "keyerror"

def opOf (t : Tok) : Option Op := do
  match ← t.list? with
  | [Tok.int 0, sys] => pure (Op.system (← (← sys.list?).mapM selMolOf))
  | [Tok.int 1, sel, m] => pure (Op.molecule ((← sel.nat?) != 0) (← molOf m))
  | _ => none

def encRes : Res → String
  | .system (.ok s) => "ok " ++ encList (s.map fun p => encMol p.2)
  | .system (.error e) => encErr e
  | .molecule (.ok m) => "ok " ++ encMol m
  | .molecule (.error e) => encErr e

def optNatOf (v : Tok) : Option (Option Nat) :=
  match v with
  | Tok.none => some none
  | Tok.int i => if i < 0 then none else some (some i.toNat)
  | _ => none

def atom2Of (t : Tok) : Option Atom2 := do
  match ← t.list? with
  | [k, r, s, d] => pure { key := ← k.int?, res := ← r.nat?, src := ← optNatOf s, dst := ← optNatOf d }
  | _ => none

def mol2Of (t : Tok) : Option Mol2 := do (← t.list?).mapM atom2Of

def selMol2Of (t : Tok) : Option (Bool × Mol2) := do
  match ← t.list? with
  | [s, m] => pure ((← s.nat?) != 0, ← mol2Of m)
  | _ => none

def encMol2 (m : Mol2) : String := encList (m.map fun a => encList [encVal a.src, encVal a.dst])

def encMols2 : Except Err (List Mol2) → String
  | .ok ms => "ok " ++ encList (ms.map encMol2)
  | .error e => encErr e

def encDssp : Except DsspErr (List Char) → String
  | .ok cs => "ok " ++ encStr (String.ofList cs)
  | .error .stopIteration => "stopiteration"
  | .error .ioError => "ioerror"

def handle (_ : Unit) (toks : List Tok) : Unit × String :=
  let r : Option String :=
    match toks with
    | [Tok.str "conv", s] => do
        let s ← s.str?
        let a := convertImpl C17Tables.ssCg C17Tables.patterns s.toList
        let b := convertSpec C17Tables.ssCg s.toList
        pure ("impl " ++ encChars a ++ " spec " ++ encChars b)
    | [Tok.str "residues", m] => do
        let m ← molOf m
        pure (encList ((residues m).map fun r => encList ((keysOf m r).map encInt)))
    | [Tok.str "annotmol", m, seq] => do
        let m ← molOf m
        let seq ← nats? seq
        match annotateMol m seq with
        | .ok m' => pure ("ok " ++ encMol m')
        | .error e => pure (encErr e)
    | [Tok.str "annot", sys, seq] => do
        let sys ← (← sys.list?).mapM selMolOf
        let seq ← nats? seq
        match annotateSystem sys seq with
        | .ok s' => pure ("ok " ++ encList (s'.map fun p => encMol p.2))
        | .error e => pure (encErr e)
    | [Tok.str "annotold", sys, seq] => do
        let sys ← (← sys.list?).mapM selMolOf
        let seq ← nats? seq
        match annotateSystemOld sys seq with
        | .ok s' => pure ("ok " ++ encList (s'.map fun p => encMol p.2))
        | .error e => pure (encErr e)
    | [Tok.str "history", seq, ops] => do
        let seq ← nats? seq
        let ops ← (← ops.list?).mapM opOf
        pure (" | ".intercalate ((runHistory { sequence := seq } ops).map encRes))
    | [Tok.str "convmol", m] => do
        let m ← molOf m
        match convertAnnotation C17Tables.ssCg C17Tables.patterns m with
        | .ok m' => pure ("ok " ++ encMol m')
        | .error e => pure (encErr e)
    | [Tok.str "pyset", ks] => do
        let ks ← ints? ks
        pure (encList ((pySetIter ks).map encInt) ++ " exact " ++ encBool (setOrderExact ks))
    | [Tok.str "iterres", m] => do
        let m ← molOf m
        pure (encList ((iterResidues m).map fun p => encList (p.2.map encInt))
          ++ " exact " ++ encBool (iterResiduesExact m))
    | [Tok.str "seqres", m] => do
        let m ← molOf m
        pure (encList ((seqFromResiduesCode m).map encVal))
    | [Tok.str "annotmol2", m, seq] => do
        let m ← molOf m
        let seq ← nats? seq
        match annotateMolCode m seq with
        | .ok m' => pure ("ok " ++ encMol m')
        | .error e => pure (encErr e)
    | [Tok.str "convmol2", m] => do
        let m ← mol2Of m
        match convertAnnotationCode C17Tables.ssCg C17Tables.patterns m with
        | .ok m' => pure ("ok " ++ encMol2 m')
        | .error e => pure (encErr e)
    | [Tok.str "martini", sys] => do
        let sys ← (← sys.list?).mapM mol2Of
        pure (encMols2 (annotateMartiniSystem C17Tables.ssCg C17Tables.patterns sys))
    | [Tok.str "dssp", prot, m, pos, ss] => do
        let m ← molOf m
        let pos ← nats? pos
        let ss ← nats? ss
        let prot := (← prot.nat?) != 0
        let hasPos := pos.map (· != 0)
        let inp := match dsspInput prot m hasPos with
          | none => "-"
          | some c => encList ((iterResidues c).map fun p => encList (p.2.map encInt))
        match annotateDssp prot m hasPos ss with
        | .ok m' => pure ("ok " ++ encMol m' ++ " input " ++ inp)
        | .error e => pure (encErr e ++ " input " ++ inp)
    | [Tok.str "cliss", sys, ss] => do
        let sys ← (← sys.list?).mapM selMol2Of
        let ss ← ss.str?
        pure (encMols2 (cliSs C17Tables.ssCg C17Tables.patterns sys ss.toList))
    | [Tok.str "clicollagen", sys] => do
        let sys ← (← sys.list?).mapM selMol2Of
        pure (encMols2 (cliCollagen sys))
    | [Tok.str "clidssp", sys] => do
        let sys ← (← sys.list?).mapM fun t => do
          match ← t.list? with
          | [prot, m, pos, ss] =>
            pure ((← prot.nat?) != 0, ← mol2Of m, (← nats? pos).map (· != 0), ← nats? ss)
          | _ => none
        pure (encMols2 (cliDssp C17Tables.ssCg C17Tables.patterns sys))
    | [Tok.str "savefile", cs] => do
        let cs ← (← cs.list?).mapM fun t =>
          match t with
          | Tok.list [] => some none
          | Tok.list [c] => (c.optStr?).map some
          | _ => none
        match savefileName cs with
        | .ok n => pure ("ok " ++ encStr n)
        | .error .indexError => pure "indexerror"
        | .error .valueError => pure "valueerror"
    | [Tok.str "readdssp", ls] => do
        let ls ← (← ls.list?).mapM Tok.str?
        pure (encDssp (readDssp2 (ls.map String.toList)))
    | _ => none
  ((), r.getD "bad-op")

def main : IO Unit := runDriver handle ()
