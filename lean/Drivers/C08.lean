import VermouthModel.C08_Hist
open Proto C08

def entryOf (t : Tok) : Option Entry := do
  match ← t.list? with
  | [l, ty, c] => pure { level := ← l.nat?, type := ← ty.str?, count := ← c.nat? }
  | _ => none

def specOf (t : Tok) : Option Spec := do
  match ← t.list? with
  | [ty, c] => pure (← ty.optStr?, ← c.optInt?)
  | _ => none

def hopOf (t : Tok) : Option HOp := do
  match ← t.list? with
  | [Tok.str "log", l, ty] => pure (.log (← l.nat?) (← ty.str?))
  | [Tok.str "count", l, ty] => pure (.countBy ((← l.optInt?).map Int.toNat) (← ty.optStr?))
  | [Tok.str "leftover", l, specs] => do
      let ss ← (← specs.list?).mapM (fun g => do (← g.list?).mapM specOf)
      pure (.leftover ss (← l.nat?))
  | _ => none

def handle (_ : Unit) (toks : List Tok) : Unit × String :=
  let r : Option String :=
    match toks with
    | [Tok.str "leftover", lvl, counter, specs] => do
        let level ← lvl.nat?
        let es ← (← counter.list?).mapM entryOf
        let ss ← (← specs.list?).mapM (fun g => do (← g.list?).mapM specOf)
        pure (encInt (leftover es ss level))
    | [Tok.str "hist", ops] => do
        let os ← (← ops.list?).mapM hopOf
        pure (encList ((hrun [] os).map encOptInt))
    | [Tok.str "maxwarn", v] => do
        let s ← v.str?
        match parseMaxwarn s.toList with
        | .ok (t, c) => pure ("ok " ++ encOptStr t ++ " " ++ encOptInt c)
        | .reject => pure "reject"
    | _ => none
  ((), r.getD "bad-op")

def main : IO Unit := runDriver handle ()
