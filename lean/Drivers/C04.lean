import VermouthModel.Proto
import VermouthModel.C04
import VermouthModel.C19_Repair
open Proto Iso C04

def attrOf (t : Tok) : Option (String × String) := do
  match ← t.list? with
  | [k, v] => pure (← k.str?, ← v.str?)
  | _ => none

def atomOf (t : Tok) : Option Atom := do
  match ← t.list? with
  | [k, n, e, as, p] =>
      pure { key := ← k.int?, name := ← n.str?, elem := ← e.int?,
             attrs := ← (← as.list?).mapM attrOf, ptm := (← p.optInt?).map (· != 0) }
  | _ => none

def pairOf (t : Tok) : Option (Int × Int) := do
  match ← t.list? with
  | [u, v] => pure (← u.int?, ← v.int?)
  | _ => none

def pairsOf (t : Tok) : Option (List (Int × Int)) := do (← t.list?).mapM pairOf

def residueOf (t : Tok) : Option Residue := do
  match ← t.list? with
  | [bn, be, f, m, c] =>
      pure { block := { nodes := ← (← bn.list?).mapM atomOf, edges := ← pairsOf be },
             found := ← ints? f, mtch := ← pairsOf m, common := ← (← c.list?).mapM attrOf }
  | _ => none

def graphOf (ns es : Tok) : Option Graph := do
  pure { nodes := ← pairsOf ns, edges := (← pairsOf es).map fun e => (e.1, e.2, 0) }

def encAttr (p : String × String) : String := encList [encStr p.1, encStr p.2]

def encAtom (a : Atom) : String :=
  encList [encInt a.key, encStr a.name, encInt a.elem, encList (a.attrs.map encAttr), encOptInt (a.ptm.map fun b => if b then 1 else 0)]

def encPair (p : Int × Int) : String := encList [encInt p.1, encInt p.2]

def normEdge (e : Int × Int) : Int × Int := if e.1 ≤ e.2 then e else (e.2, e.1)

def edgeLe (a b : Int × Int) : Bool := a.1 < b.1 || (a.1 == b.1 && a.2 ≤ b.2)

/-- edge SET in canonical form (the order of networkx' adjacency is not part of the behaviour) -/
def canonEdges (es : List (Int × Int)) : List (Int × Int) := ((es.map normEdge).mergeSort edgeLe).eraseDups

def encEvent : Event → String
  | .missing n h => encList [encStr "missing", encStr n, encBool h]
  | .adding _ n h => encList [encStr "adding", encStr n, encBool h]
  | .lost n => encList [encStr "lost", encStr n]

def handle (_ : Unit) (toks : List Tok) : Unit × String :=
  let r : Option String :=
    match toks with
    | [Tok.str "repair", ns, es, rs] => do
        let m : Mol := { nodes := ← (← ns.list?).mapM atomOf, edges := ← pairsOf es }
        let rs ← (← rs.list?).mapM residueOf
        let (out, ms, log) := repairGraph m rs
        pure (" ".intercalate [encList (out.nodes.map encAtom), encList ((canonEdges out.edges).map encPair),
                               encList (ms.map fun M => encList (M.map encPair)), encList (log.map encEvent)])
    | [Tok.str "mcis", gn, ge, sn, se] => do
        pure (encNat (mcisSize (← graphOf gn ge) (← graphOf sn se)))
    | [Tok.str "patch", bn, be, mods] => do
        -- `_patch_modification` (model shared with C19): block patched with the modifications in turn
        let b : Block := { nodes := ← (← bn.list?).mapM atomOf, edges := ← pairsOf be }
        let mds ← (← mods.list?).mapM fun t => do
          match ← t.list? with
          | [mn, me] => pure ({ nodes := ← (← mn.list?).mapM atomOf, edges := ← pairsOf me } : Block)
          | _ => none
        match mds.foldl (fun acc md => acc.bind fun b => C19.Repair.patchModification b md) (some b) with
        | none => pure "does-not-fit"
        | some b' => pure (encList (b'.nodes.map fun a => encList [encInt a.key, encStr a.name])
                           ++ " " ++ encList ((canonEdges b'.edges).map encPair))
    | [Tok.str "connected", bn, be] => do
        let b : Block := { nodes := ← (← bn.list?).mapM atomOf, edges := ← pairsOf be }
        pure (encBool (connectedB b))
    | _ => none
  ((), r.getD "bad-op")

def main : IO Unit := runDriver handle ()
