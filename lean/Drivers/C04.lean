import VermouthModel.Proto
import VermouthModel.C04
import VermouthModel.C19_Repair
import VermouthModel.C04_Ref
open Proto Iso C04

def attrOf (t : Tok) : Option (String × String) := do
  match ← t.list? with
  | [k, v] => pure (← k.str?, ← v.str?)
  | _ => none

def atomOf (t : Tok) : Option Atom := do
  match ← t.list? with
  | [k, n, e, as, p] =>
      pure { key := ← k.int?, name := ← n.str?, elem := ← e.int?,
             attrs := ← (← as.list?).mapM attrOf, ptm := (← p.optInt?).map (· != 0) }
  | _ => none

def pairOf (t : Tok) : Option (Int × Int) := do
  match ← t.list? with
  | [u, v] => pure (← u.int?, ← v.int?)
  | _ => none

def pairsOf (t : Tok) : Option (List (Int × Int)) := do (← t.list?).mapM pairOf

def residueOf (t : Tok) : Option Residue := do
  match ← t.list? with
  | [bn, be, f, m, c] =>
      pure { block := { nodes := ← (← bn.list?).mapM atomOf, edges := ← pairsOf be },
             found := ← ints? f, mtch := ← pairsOf m, common := ← (← c.list?).mapM attrOf }
  | _ => none

def graphOf (ns es : Tok) : Option Graph := do
  pure { nodes := ← pairsOf ns, edges := (← pairsOf es).map fun e => (e.1, e.2, 0) }

def encAttr (p : String × String) : String := encList [encStr p.1, encStr p.2]

def encAtom (a : Atom) : String :=
  encList [encInt a.key, encStr a.name, encInt a.elem, encList (a.attrs.map encAttr), encOptInt (a.ptm.map fun b => if b then 1 else 0)]

def encPair (p : Int × Int) : String := encList [encInt p.1, encInt p.2]

def normEdge (e : Int × Int) : Int × Int := if e.1 ≤ e.2 then e else (e.2, e.1)

def edgeLe (a b : Int × Int) : Bool := a.1 < b.1 || (a.1 == b.1 && a.2 ≤ b.2)

/-- edge SET in canonical form (the order of networkx' adjacency is not part of the behaviour) -/
def canonEdges (es : List (Int × Int)) : List (Int × Int) := ((es.map normEdge).mergeSort edgeLe).eraseDups

def encEvent : Event → String
  | .missing n h => encList [encStr "missing", encStr n, encBool h]
  | .adding _ n h => encList [encStr "adding", encStr n, encBool h]
  | .lost n => encList [encStr "lost", encStr n]


/-! ### `make_reference` / `_get_reference_residue` / pipeline (VermouthModel/C04_Ref.lean) -/

def ratomOf (t : Tok) : Option Ref.RAtom := do
  match ← t.list? with
  | [k, n, e] =>
      let nm ← (match n with
        | Tok.none => some Ref.AName.pyNone
        | Tok.int _ => some Ref.AName.absent
        | Tok.str s => some (Ref.AName.str s)
        | _ => none)
      pure { key := ← k.int?, name := nm, elem := ← e.optInt? }
  | _ => none

def optStrs (t : Tok) : Option (Option (List String)) :=
  match t with
  | Tok.none => some none
  | _ => (strs? t).map some

def blockOf (bn be : Tok) : Option Block := do
  pure { nodes := ← (← bn.list?).mapM atomOf, edges := ← pairsOf be }

def namedBlocks (t : Tok) : Option (List (String × Block)) := do
  (← t.list?).mapM fun x => do
    match ← x.list? with
    | [n, bn, be] => pure (← n.str?, ← blockOf bn be)
    | _ => none

def ffOf (blocks mods : Tok) : Option C19.Repair.FF := do
  pure { blocks := ← namedBlocks blocks, mods := ← namedBlocks mods }

def reqOf (t : Tok) : Option Ref.ResReq := do
  match ← t.list? with
  | [f, rn, mu, md, c, ans] =>
      pure { found := ← ints? f, resname := ← rn.str?, mutation := ← optStrs mu, modification := ← optStrs md,
             common := ← (← c.list?).mapM attrOf, answers := ← (← ans.list?).mapM pairsOf }
  | _ => none

def natPairOf (t : Tok) : Option (Nat × Nat) := do
  match ← t.list? with
  | [u, v] => pure (← u.nat?, ← v.nat?)
  | _ => none

def encMkErr : Ref.MkErr → String
  | .noName _ => "error no-name"
  | .noAlpha _ => "error no-alpha"
  | .nameIsNone _ => "error name-none"
  | .badAnswer => "error bad-answer"

def encGErr : Ref.GErr → String
  | .mutateTwice => "error mutate-twice"
  | .emptyMutation => "error empty-mutation"
  | .unknownBlock n => "error unknown-block " ++ encStr n
  | .unknownModification n => "error unknown-modification " ++ encStr n
  | .doesNotFit n => "error does-not-fit " ++ encStr n

def encGraph (g : Graph) : List String :=
  [encList (g.nodes.map fun p => encList [encInt p.1, encInt p.2]),
   encList ((canonEdges (g.edges.map fun e => (e.1, e.2.1))).map encPair)]

def encMap (M : Map) : String := encList (M.map encPair)

def posIn (l : List Int) (k : Int) : Nat := l.findIdx (· == k)

def handle (_ : Unit) (toks : List Tok) : Unit × String :=
  let r : Option String :=
    match toks with
    | [Tok.str "repair", ns, es, rs] => do
        let m : Mol := { nodes := ← (← ns.list?).mapM atomOf, edges := ← pairsOf es }
        let rs ← (← rs.list?).mapM residueOf
        let (out, ms, log) := repairGraph m rs
        pure (" ".intercalate [encList (out.nodes.map encAtom), encList ((canonEdges out.edges).map encPair),
                               encList (ms.map fun M => encList (M.map encPair)), encList (log.map encEvent)])
    | [Tok.str "mcis", gn, ge, sn, se] => do
        pure (encNat (mcisSize (← graphOf gn ge) (← graphOf sn se)))
    | [Tok.str "patch", bn, be, mods] => do
        -- `_patch_modification` (model shared with C19): block patched with the modifications in turn
        let b : Block := { nodes := ← (← bn.list?).mapM atomOf, edges := ← pairsOf be }
        let mds ← (← mods.list?).mapM fun t => do
          match ← t.list? with
          | [mn, me] => pure ({ nodes := ← (← mn.list?).mapM atomOf, edges := ← pairsOf me } : Block)
          | _ => none
        match mds.foldl (fun acc md => acc.bind fun b => C19.Repair.patchModification b md) (some b) with
        | none => pure "does-not-fit"
        | some b' => pure (encList (b'.nodes.map fun a => encList [encInt a.key, encStr a.name])
                           ++ " " ++ encList ((canonEdges b'.edges).map encPair))
    | [Tok.str "mkref", ra, re, fa, fe, ans] => do
        let res ← (← ra.list?).mapM ratomOf
        let ref ← (← fa.list?).mapM ratomOf
        let answers ← (← ans.list?).mapM pairsOf
        match Ref.makeRef res ref (← pairsOf re) (← pairsOf fe) answers with
        | .error e => pure (encMkErr e)
        | .ok o =>
          let matrix := match Ref.addElements ref, Ref.addElements res with
            | .ok ref', .ok res' => ref'.map fun r => encStr (String.ofList (res'.map fun s => if Ref.nodeMatch r s then '1' else '0'))
            | _, _ => []
          pure (" ".intercalate ([encList (o.resNew.map fun p => encInt p.1), encList (o.refNew.map fun p => encInt p.1)]
                  ++ encGraph o.resCopy ++ encGraph o.refCopy
                  ++ [encList matrix, match o.mtch with | none => "-" | some M => encMap M]))
    | [Tok.str "getref", rn, mu, md, blocks, mods] => do
        match Ref.getRef (← ffOf blocks mods) (← rn.str?) (← optStrs mu) (← optStrs md) with
        | .error e => pure (encGErr e)
        | .ok b => pure (encList (b.nodes.map encAtom) ++ " " ++ encList ((canonEdges b.edges).map encPair))
    | [Tok.str "pipeline", ns, es, blocks, mods, reqs, redges] => do
        let m : Mol := { nodes := ← (← ns.list?).mapM atomOf, edges := ← pairsOf es }
        let qs ← (← reqs.list?).mapM reqOf
        match Ref.pipeline (← ffOf blocks mods) m qs (← (← redges.list?).mapM natPairOf) with
        | .error (.ref i e) => pure ("residue " ++ encNat i ++ " " ++ encGErr e)
        | .error (.mk i .badAnswer) => pure ("residue " ++ encNat i ++ " " ++ encMkErr .badAnswer)
        | .error (.mk i _) => pure ("residue " ++ encNat i ++ " error no-element")
        | .ok o =>
          pure (" ".intercalate [encList (o.mol.nodes.map encAtom), encList ((canonEdges o.mol.edges).map encPair),
                                 encList (o.mtchs.map encMap), encList (o.log.map encEvent),
                                 encList (o.kept.map encNat),
                                 encList ((canonEdges (o.refEdges.map fun e => ((e.1 : Int), (e.2 : Int)))).map encPair)])
    | [Tok.str "mcismem", gn, ge, sn, se, mts] => do
        -- size of a maximum common induced subgraph, and for each map (any order): is it one of them?
        let g ← graphOf gn ge
        let sg ← graphOf sn se
        let Ms ← (← mts.list?).mapM pairsOf
        let P := graphProblem g sg (colourPred g sg)
        let size := mcisSize g sg
        let oks := Ms.map fun M =>
          let M' := M.mergeSort fun p q => posIn sg.keys p.1 ≤ posIn sg.keys q.1
          M'.length == size && (M'.map Prod.fst).Pairwise (· ≠ ·) && (M'.map Prod.fst).all (sg.keys.contains ·)
            && (isosOn P (M'.map Prod.fst)).contains M'
        pure (encNat size ++ " " ++ encList (oks.map encBool))
    | [Tok.str "connected", bn, be] => do
        let b : Block := { nodes := ← (← bn.list?).mapM atomOf, edges := ← pairsOf be }
        pure (encBool (connectedB b))
    | _ => none
  ((), r.getD "bad-op")

def main : IO Unit := runDriver handle ()
