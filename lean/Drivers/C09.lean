import VermouthModel.C09_Pipeline
open Proto C09

/-
requests
  avg <entry> <selfWeight> <ffVar> <ignoreMissing> [ bead* ]
    entry       0 = do_average_bead(mol, ignore, weight=selfWeight)   (selfWeight: - | xname)
                1 = DoAverageBead(ignore, selfWeight).run_molecule(mol) (selfWeight: - | 0 (False) | xname)
    ffVar       - | xname      (force_field.variables['center_weight'])
    bead        [ graph weights ]   graph: - | [ atom* ]   weights: - | [ [ key rat ]* ]
    atom        [ key pos [ [ xname rat ]* ] ]   pos: - | [ c c c ]   c: - (not finite) | rat
  hist <selfWeight> <ignoreMissing> [ [ ffVar [ bead* ] ]* ]    one DoAverageBead object, several molecules
    rat         [ num den ]
  sys  <selfWeight> <ignoreMissing> [ [ ffVar [ bead* ] ]* ]    one DoAverageBead.run_system over the molecules
  avgq <qexp> <entry> <selfWeight> <ffVar> <ignoreMissing> [ bead* ]   as avg, results in units of 2^-qexp
  pipe <selfWeight> <ffVar> <ignoreMissing> <qexp> [ atom* ] maps raw mods rawMods
    DoMapping then DoAverageBead: atom* = the INPUT molecule (key, position, numeric attributes) in node
    order; maps raw mods rawMods exactly as in driver_c01 `mapmod` (mapping definitions and raw matches)
responses
  keyerror | valueerror | ok [ res* ]    res: - (untouched) | [ ] (NaN) | [ qx qy qz ] (units of 2^-30)
  hist, sys: the outcomes joined by " | "
  pipe: maperror <status> | keyerror | valueerror | ok [ [ key res ]* ]
-/

def ratOf (t : Tok) : Option Rat := do
  match ← t.list? with
  | [n, d] =>
      let dn ← d.nat?
      if dn = 0 then none else pure (mkRat (← n.int?) dn)
  | _ => none

def coordOfTok (t : Tok) : Option (Option Rat) :=
  match t with
  | Tok.none => some none
  | t => (ratOf t).map some

def posOf (t : Tok) : Option (Option (V3 (Option Rat))) :=
  match t with
  | Tok.none => some none
  | Tok.list [a, b, c] => do pure (some ⟨← coordOfTok a, ← coordOfTok b, ← coordOfTok c⟩)
  | _ => none

def attrOf (t : Tok) : Option (String × Rat) := do
  match ← t.list? with
  | [n, v] => pure (← n.str?, ← ratOf v)
  | _ => none

def atomOf (t : Tok) : Option (Atom Rat) := do
  match ← t.list? with
  | [k, p, as] => pure { key := ← k.int?, coords := ← posOf p, attrs := ← (← as.list?).mapM attrOf }
  | _ => none

def wentryOf (t : Tok) : Option (Int × Rat) := do
  match ← t.list? with
  | [k, v] => pure (← k.int?, ← ratOf v)
  | _ => none

def beadOf (t : Tok) : Option (Bead Rat) := do
  match ← t.list? with
  | [g, w] =>
      let graph ← match g with
        | Tok.none => pure none
        | Tok.list l => do pure (some (← l.mapM atomOf))
        | _ => none
      let weights ← match w with
        | Tok.none => pure none
        | Tok.list l => do pure (some (← l.mapM wentryOf))
        | _ => none
      pure { graph := graph, weights := weights }
  | _ => none

def encRes : Option (Option (V3 Rat)) → String
  | none => "-"
  | some none => "[ ]"
  | some (some p) => encList [encInt (quant p.x), encInt (quant p.y), encInt (quant p.z)]

def encOutcome : Outcome Rat → String
  | .keyError => "keyerror"
  | .valueError => "valueerror"
  | .ok l => "ok " ++ encList (l.map encRes)


/-! ### mapping definitions and raw matches (same encoding as Drivers/C01.lean, `mapmod`) -/

def pairOf (t : Tok) : Option (Int × Int) := do
  match ← t.list? with
  | [a, b] => pure (← a.int?, ← b.int?)
  | _ => none

def pairsOfTok (t : Tok) : Option (List (Int × Int)) := do (← t.list?).mapM pairOf

def bnodeOf (t : Tok) : Option (Int × C12.Attrs) := do
  match ← t.list? with
  | [k, n, r, c] => pure (← k.int?, { name := ← n.optStr?, resid := ← r.optInt?, cg := ← c.optInt? })
  | _ => none

def interOf (t : Tok) : Option (String × C12.Inter) := do
  match ← t.list? with
  | [ty, ats, pr, v] => pure (← ty.str?, { atoms := ← ints? ats, params := ← pr.str?, version := ← v.int? })
  | _ => none

def ratND (n d : Tok) : Option Rat := do
  let n ← n.int?
  let d ← d.nat?
  if d = 0 then none else pure (mkRat n d)

def weightsOf (t : Tok) : Option C01.Dict2 := do
  (← t.list?).mapM (fun row => do
    match ← row.list? with
    | [f, ws] =>
      let ws ← (← ws.list?).mapM (fun w => do
        match ← w.list? with
        | [b, n, d] => pure (← b.int?, ← ratND n d)
        | _ => none)
      pure (← f.int?, ws)
    | _ => none)

def mapSpecOf (t : Tok) : Option C01.MapSpec := do
  match ← t.list? with
  | [nodes, edges, inters, nrexcl, weights, refs] =>
    let ns ← (← nodes.list?).mapM bnodeOf
    let es ← pairsOfTok edges
    let is ← (← inters.list?).mapM interOf
    pure { blockTo := { nodes := ns, edges := es, inters := is, nrexcl := ← nrexcl.optInt? },
           weights := ← weightsOf weights, refs := ← pairsOfTok refs }
  | _ => none

def modNodeOf (t : Tok) : Option C01.ModNode := do
  match ← t.list? with
  | [k, n, r, c, isNew] => pure { key := ← k.int?, attrs := { name := ← n.optStr?, resid := ← r.optInt?, cg := ← c.optInt? },
                                   isNew := (← isNew.int?) != 0 }
  | _ => none

def modSpecOf (t : Tok) : Option C01.ModSpec := do
  match ← t.list? with
  | [nodes, edges, inters, weights, refs] =>
    pure { nodes := ← (← nodes.list?).mapM modNodeOf, edges := ← pairsOfTok edges,
           inters := ← (← inters.list?).mapM interOf, weights := ← weightsOf weights, refs := ← pairsOfTok refs }
  | _ => none

def rawOfTok (t : Tok) : Option (Nat × List (Int × Int)) := do
  match ← t.list? with
  | [i, m] => pure (← i.nat?, ← pairsOfTok m)
  | _ => none

def encResAt (e : Int) : Option (Option (V3 Rat)) → String
  | none => "-"
  | some none => "[ ]"
  | some (some p) => encList [encInt (quantAt e p.x), encInt (quantAt e p.y), encInt (quantAt e p.z)]

def encOutcomeAt (e : Int) : Outcome Rat → String
  | .keyError => "keyerror"
  | .valueError => "valueerror"
  | .ok l => "ok " ++ encList (l.map (encResAt e))

def encPipe (e : Int) : PipeOutcome → String
  | .mapError x => "maperror " ++ x.str
  | .averaged _ .keyError => "keyerror"
  | .averaged _ .valueError => "valueerror"
  | .averaged keys (.ok l) => "ok " ++ encList ((keys.zip l).map (fun kr => encList [encInt kr.1, encResAt e kr.2]))

def selfOf : Tok → Option WeightArg
  | Tok.none => some WeightArg.unset
  | Tok.int 0 => some WeightArg.off
  | Tok.str n => some (WeightArg.attr n)
  | _ => none

def handle (_ : Unit) (toks : List Tok) : Unit × String :=
  let r : Option String :=
    match toks with
    | [Tok.str "avg", entry, selfW, ffv, ign, beads] => do
        let e ← entry.nat?
        let ffVar ← ffv.optStr?
        let ignore := (← ign.nat?) != 0
        let mol ← (← beads.list?).mapM beadOf
        if e = 0 then
          let w ← selfW.optStr?
          pure (encOutcome (doAverageBeadQ mol ignore w))
        else
          let self ← match selfW with
            | Tok.none => pure WeightArg.unset
            | Tok.int 0 => pure WeightArg.off
            | Tok.str n => pure (WeightArg.attr n)
            | _ => none
          pure (encOutcome (runMoleculeQ self ffVar ignore mol))
    | [Tok.str "hist", selfW, ign, steps] => do
        let ignore := (← ign.nat?) != 0
        let self ← match selfW with
          | Tok.none => pure WeightArg.unset
          | Tok.int 0 => pure WeightArg.off
          | Tok.str n => pure (WeightArg.attr n)
          | _ => none
        let ops ← (← steps.list?).mapM fun st => do
          match ← st.list? with
          | [ffv, beads] => pure (← ffv.optStr?, ← (← beads.list?).mapM beadOf)
          | _ => none
        pure (" | ".intercalate ((runHistoryQ ⟨ignore, self⟩ ops).map encOutcome))
    | [Tok.str "sys", selfW, ign, steps] => do
        let ignore := (← ign.nat?) != 0
        let self ← selfOf selfW
        let ops ← (← steps.list?).mapM fun st => do
          match ← st.list? with
          | [ffv, beads] => pure (← ffv.optStr?, ← (← beads.list?).mapM beadOf)
          | _ => none
        pure (" | ".intercalate ((runSystemQ ⟨ignore, self⟩ ops).map encOutcome))
    | [Tok.str "avgq", qexp, entry, selfW, ffv, ign, beads] => do
        let qe ← qexp.int?
        let e ← entry.nat?
        let ffVar ← ffv.optStr?
        let ignore := (← ign.nat?) != 0
        let mol ← (← beads.list?).mapM beadOf
        if e = 0 then
          let w ← selfW.optStr?
          pure (encOutcomeAt qe (doAverageBeadQ mol ignore w))
        else
          pure (encOutcomeAt qe (runMoleculeQ (← selfOf selfW) ffVar ignore mol))
    | [Tok.str "pipe", selfW, ffv, ign, qexp, atoms, maps, raw, mods, rawMods] => do
        let self ← selfOf selfW
        let ffVar ← ffv.optStr?
        let ignore := (← ign.nat?) != 0
        let qe ← qexp.int?
        let geom ← (← atoms.list?).mapM atomOf
        let ms ← (← maps.list?).mapM mapSpecOf
        let rw ← (← raw.list?).mapM rawOfTok
        let md ← (← mods.list?).mapM modSpecOf
        let rm ← (← rawMods.list?).mapM rawOfTok
        pure (encPipe qe (pipelineAll geom self ffVar ignore ms rw md rm))
    | _ => none
  ((), r.getD "bad-op")

def main : IO Unit := runDriver handle ()
