import VermouthModel.C09
open Proto C09

/-
requests
  avg <entry> <selfWeight> <ffVar> <ignoreMissing> [ bead* ]
    entry       0 = do_average_bead(mol, ignore, weight=selfWeight)   (selfWeight: - | xname)
                1 = DoAverageBead(ignore, selfWeight).run_molecule(mol) (selfWeight: - | 0 (False) | xname)
    ffVar       - | xname      (force_field.variables['center_weight'])
    bead        [ graph weights ]   graph: - | [ atom* ]   weights: - | [ [ key rat ]* ]
    atom        [ key pos [ [ xname rat ]* ] ]   pos: - | [ c c c ]   c: - (not finite) | rat
  hist <selfWeight> <ignoreMissing> [ [ ffVar [ bead* ] ]* ]    one DoAverageBead object, several molecules
    rat         [ num den ]
responses
  keyerror | valueerror | ok [ res* ]    res: - (untouched) | [ ] (NaN) | [ qx qy qz ] (units of 2^-30)
  hist: the outcomes joined by " | "
-/

def ratOf (t : Tok) : Option Rat := do
  match ← t.list? with
  | [n, d] =>
      let dn ← d.nat?
      if dn = 0 then none else pure (mkRat (← n.int?) dn)
  | _ => none

def coordOfTok (t : Tok) : Option (Option Rat) :=
  match t with
  | Tok.none => some none
  | t => (ratOf t).map some

def posOf (t : Tok) : Option (Option (V3 (Option Rat))) :=
  match t with
  | Tok.none => some none
  | Tok.list [a, b, c] => do pure (some ⟨← coordOfTok a, ← coordOfTok b, ← coordOfTok c⟩)
  | _ => none

def attrOf (t : Tok) : Option (String × Rat) := do
  match ← t.list? with
  | [n, v] => pure (← n.str?, ← ratOf v)
  | _ => none

def atomOf (t : Tok) : Option (Atom Rat) := do
  match ← t.list? with
  | [k, p, as] => pure { key := ← k.int?, coords := ← posOf p, attrs := ← (← as.list?).mapM attrOf }
  | _ => none

def wentryOf (t : Tok) : Option (Int × Rat) := do
  match ← t.list? with
  | [k, v] => pure (← k.int?, ← ratOf v)
  | _ => none

def beadOf (t : Tok) : Option (Bead Rat) := do
  match ← t.list? with
  | [g, w] =>
      let graph ← match g with
        | Tok.none => pure none
        | Tok.list l => do pure (some (← l.mapM atomOf))
        | _ => none
      let weights ← match w with
        | Tok.none => pure none
        | Tok.list l => do pure (some (← l.mapM wentryOf))
        | _ => none
      pure { graph := graph, weights := weights }
  | _ => none

def encRes : Option (Option (V3 Rat)) → String
  | none => "-"
  | some none => "[ ]"
  | some (some p) => encList [encInt (quant p.x), encInt (quant p.y), encInt (quant p.z)]

def encOutcome : Outcome Rat → String
  | .keyError => "keyerror"
  | .valueError => "valueerror"
  | .ok l => "ok " ++ encList (l.map encRes)

def handle (_ : Unit) (toks : List Tok) : Unit × String :=
  let r : Option String :=
    match toks with
    | [Tok.str "avg", entry, selfW, ffv, ign, beads] => do
        let e ← entry.nat?
        let ffVar ← ffv.optStr?
        let ignore := (← ign.nat?) != 0
        let mol ← (← beads.list?).mapM beadOf
        if e = 0 then
          let w ← selfW.optStr?
          pure (encOutcome (doAverageBeadQ mol ignore w))
        else
          let self ← match selfW with
            | Tok.none => pure WeightArg.unset
            | Tok.int 0 => pure WeightArg.off
            | Tok.str n => pure (WeightArg.attr n)
            | _ => none
          pure (encOutcome (runMoleculeQ self ffVar ignore mol))
    | [Tok.str "hist", selfW, ign, steps] => do
        let ignore := (← ign.nat?) != 0
        let self ← match selfW with
          | Tok.none => pure WeightArg.unset
          | Tok.int 0 => pure WeightArg.off
          | Tok.str n => pure (WeightArg.attr n)
          | _ => none
        let ops ← (← steps.list?).mapM fun st => do
          match ← st.list? with
          | [ffv, beads] => pure (← ffv.optStr?, ← (← beads.list?).mapM beadOf)
          | _ => none
        pure (" | ".intercalate ((runHistoryQ ⟨ignore, self⟩ ops).map encOutcome))
    | _ => none
  ((), r.getD "bad-op")

def main : IO Unit := runDriver handle ()
