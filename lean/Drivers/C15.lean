import VermouthModel.C15
open Proto C15

/-
request:  run <atoms> <edges> <params>
  atom   = [ key name|- chain|- resid|- resname|- icode|- oldresid|- pos ]   pos = - (missing) | [ ] (nan) | [ x y z ]
  edge   = [ u v ]
  params = [ names sep upper2 [ bn bd ] [ mn md ] [ [ d2 kn kd ] ... ] dom ]   dom = [ 0 ] | [ 1 ] | [ 2 [ [ a b ] ... ] ]
response: error [ keys ] | none | nanwarn | bonds [ [ a b len5 kn kd ] ... ]
-/

def posOf (t : Tok) : Option Pos :=
  match t with
  | Tok.none => some Pos.missing
  | Tok.list [] => some Pos.nan
  | Tok.list [x, y, z] => do pure (Pos.at (← x.int?) (← y.int?) (← z.int?))
  | _ => none

def atomOf (t : Tok) : Option Atom := do
  match ← t.list? with
  | [k, nm, ch, ri, rn, ic, old, ps] =>
      pure { key := ← k.int?, name := ← nm.optStr?,
             res := { chain := ← ch.optStr?, resid := ← ri.optInt?, resname := ← rn.optStr?, icode := ← ic.optStr? },
             oldResid := ← old.optInt?, pos := ← posOf ps }
  | _ => none

def pairOf (t : Tok) : Option (Int × Int) := do
  match ← t.list? with
  | [a, b] => pure (← a.int?, ← b.int?)
  | _ => none

def ratOf (t : Tok) : Option Rat := do
  match ← t.list? with
  | [n, d] =>
      let dn ← d.nat?
      if dn = 0 then none else pure (mkRat (← n.int?) dn)
  | _ => none

def ktabOf (t : Tok) : Option (Nat × Rat) := do
  match ← t.list? with
  | [d2, n, d] =>
      let dn ← d.nat?
      if dn = 0 then none else pure (← d2.nat?, mkRat (← n.int?) dn)
  | _ => none

def domOf (t : Tok) : Option Domain := do
  match ← t.list? with
  | [Tok.int 0] => pure Domain.always
  | [Tok.int 1] => pure Domain.chain
  | [Tok.int 2, rs] => pure (Domain.regions (← (← rs.list?).mapM pairOf))
  | _ => none

def paramsOf (t : Tok) : Option Params := do
  match ← t.list? with
  | [names, sep, up2, base, minf, ktab, dom] =>
      pure { names := ← strs? names, sep := ← sep.nat?, upper2 := ← up2.nat?, base := ← ratOf base,
             minForce := ← ratOf minf, kTab := ← (← ktab.list?).mapM ktabOf, dom := ← domOf dom }
  | _ => none

def encBond (b : Bond) : String :=
  encList [encInt b.a, encInt b.b, encNat b.len5, encInt b.k.num, encNat b.k.den]

def encOutcome : Outcome → String
  | .error ks => "error " ++ encList (ks.map encInt)
  | .nothing => "none"
  | .nanWarning => "nanwarn"
  | .bonds bs => "bonds " ++ encList (bs.map encBond)

def handle (_ : Unit) (toks : List Tok) : Unit × String :=
  let r : Option String :=
    match toks with
    | [Tok.str "run", atoms, edges, params] => do
        let as ← (← atoms.list?).mapM atomOf
        let es ← (← edges.list?).mapM pairOf
        let p ← paramsOf params
        pure (encOutcome (run as es p))
    | [Tok.str "len5", d2] => do pure (encNat (len5Of (← d2.nat?)))
    | _ => none
  ((), r.getD "bad-op")

def main : IO Unit := runDriver handle ()
