import VermouthModel.C15
import VermouthModel.C15_Cli
import VermouthModel.C15_Name
open Proto C15

/-
request:  run <atoms> <edges> <params>
  atom   = [ key name|- chain|- resid|- resname|- icode|- oldresid|- pos ]   pos = - (missing) | [ ] (nan) | [ x y z ]
  edge   = [ u v ]
  params = [ names sep upper2 [ bn bd ] [ mn md ] [ [ d2 kn kd ] ... ] dom decay ]   dom = [ 0 ] | [ 1 ] | [ 2 [ [ a b ] ... ] ]
           decay = - | [ [ an ad ] [ ln ld ] p ]   (integer power p: lets the model decide where the constant is the base exactly)
response: error [ keys ] | none | nanwarn | bonds [ [ a b len5 kn kd ] ... ]
-/

def posOf (t : Tok) : Option Pos :=
  match t with
  | Tok.none => some Pos.missing
  | Tok.list [] => some Pos.nan
  | Tok.list [x, y, z] => do pure (Pos.at (← x.int?) (← y.int?) (← z.int?))
  | _ => none

def atomOf (t : Tok) : Option Atom := do
  match ← t.list? with
  | [k, nm, ch, ri, rn, ic, old, ps] =>
      pure { key := ← k.int?, name := ← nm.optStr?,
             res := { chain := ← ch.optStr?, resid := ← ri.optInt?, resname := ← rn.optStr?, icode := ← ic.optStr? },
             oldResid := ← old.optInt?, pos := ← posOf ps }
  | _ => none

def pairOf (t : Tok) : Option (Int × Int) := do
  match ← t.list? with
  | [a, b] => pure (← a.int?, ← b.int?)
  | _ => none

def ratOf (t : Tok) : Option Rat := do
  match ← t.list? with
  | [n, d] =>
      let dn ← d.nat?
      if dn = 0 then none else pure (mkRat (← n.int?) dn)
  | _ => none

def ktabOf (t : Tok) : Option (Nat × Rat) := do
  match ← t.list? with
  | [d2, n, d] =>
      let dn ← d.nat?
      if dn = 0 then none else pure (← d2.nat?, mkRat (← n.int?) dn)
  | _ => none

def domOf (t : Tok) : Option Domain := do
  match ← t.list? with
  | [Tok.int 0] => pure Domain.always
  | [Tok.int 1] => pure Domain.chain
  | [Tok.int 2, rs] => pure (Domain.regions (← (← rs.list?).mapM pairOf))
  | _ => none

/-- decay = - | [ [ an ad ] [ ln ld ] p ] -/
def decayOf (t : Tok) : Option (Option Decay) :=
  match t with
  | Tok.none => some none
  | Tok.list [a, lo, p] => do pure (some { a := ← ratOf a, lower := ← ratOf lo, p := ← p.nat? })
  | _ => none

def paramsOf (t : Tok) : Option Params := do
  match ← t.list? with
  | [names, sep, up2, base, minf, ktab, dom, decay] =>
      pure { names := ← strs? names, sep := ← sep.nat?, upper2 := ← up2.nat?, base := ← ratOf base,
             minForce := ← ratOf minf, kTab := ← (← ktab.list?).mapM ktabOf, dom := ← domOf dom,
             decay := ← decayOf decay }
  | _ => none

def optIntOf (t : Tok) : Option (Option Int) := t.optInt?

def varOf (t : Tok) : Option (String × Int) := do
  match ← t.list? with
  | [k, v] => pure (← k.str?, ← v.int?)
  | _ => none

/-- proc = [ names lower upper a pw base minf resMinDist|- bondType|- bondTypeVar resMinDistVar dom ] (rationals as [ n d ]) -/
def procOf (t : Tok) : Option Proc := do
  match ← t.list? with
  | [names, lo, up, a, pw, base, minf, rmd, bt, btv, rmdv, dom] =>
      pure { names := ← strs? names, lower := ← ratOf lo, upper := ← ratOf up, decayFactor := ← ratOf a,
             decayPower := ← ratOf pw, base := ← ratOf base, minForce := ← ratOf minf,
             resMinDist := ← rmd.optInt?, bondType := ← bt.optInt?, bondTypeVar := ← btv.str?,
             resMinDistVar := ← rmdv.str?, dom := ← domOf dom }
  | _ => none

/-- mol = [ atoms edges vars ktab ] -/
def molOf (t : Tok) : Option MolInput := do
  match ← t.list? with
  | [atoms, edges, vars, ktab] =>
      pure { atoms := ← (← atoms.list?).mapM atomOf, edges := ← (← edges.list?).mapM pairOf,
             vars := ← (← vars.list?).mapM varOf, kTab := ← (← ktab.list?).mapM ktabOf }
  | _ => none

def encRat (r : Rat) : String := encList [encInt r.num, encNat r.den]

def encDom : Domain → String
  | .always => "[ 0 ]"
  | .chain => "[ 1 ]"
  | .regions rs => encList ["2", encList (rs.map fun r => encList [encInt r.1, encInt r.2])]

def encOptions (o : Options) : String :=
  " ".intercalate [encList (o.names.map encStr), encRat o.lower, encRat o.upper, encRat o.decayFactor,
    encRat o.decayPower, encRat o.base, encRat o.minForce, encInt o.bondType, encInt o.resMinDist, encDom o.dom]

def encBond (b : Bond) : String :=
  encList [encInt b.a, encInt b.b, encNat b.len5, encInt b.k.num, encNat b.k.den]

def encOutcome : Outcome → String
  | .error ks => "error " ++ encList (ks.map encInt)
  | .nothing => "none"
  | .nanWarning => "nanwarn"
  | .bonds bs => "bonds " ++ encList (bs.map encBond)

/-
request:  cli <elastic> <go> <toFF> <ef> <el> <eu> <ea> <ep> <em> <ermd> <eb> <eunit> <sep> <molname> <probes>
  the six numbers: [ n d ] or - (option not given); ermd / eb / eunit: string or - ; probes: [ resid ... ]
response: usage | noelastic | errint | errfaulty |
          proc merge=<0|1> sel=<default|list> <names> <lower> <upper> <a> <p> <base> <minf> <rmd|-> dom=<0|1|2> <table>
          then=<run_system calls of the block in order: merge | network | name:<dedup>:<molname>, comma separated>
  table: for a region criterion its value on every ordered pair of probe residues
request:  typesafter <dedup> [ [ nAtoms [ [ a b rest ] ... ] [ [ a b rest ] ... ] ] ... ]   (per molecule: bonds before, network)
response: [ type id ... ]
-/
def optRatOf (t : Tok) : Option (Option Rat) :=
  match t with
  | Tok.none => some none
  | _ => (ratOf t).map some

def optCharsOf (t : Tok) : Option (Option (List Char)) :=
  match t with
  | Tok.none => some none
  | Tok.str s => some (some s.toList)
  | _ => none

def boolOf (t : Tok) : Option Bool :=
  match t with
  | Tok.int 0 => some false
  | Tok.int 1 => some true
  | _ => none

def probeAtom (r : Int) : Atom := { (default : Atom) with oldResid := some r }

def encCli (probes : List Int) : CliResult → String
  | .usageError => "usage"
  | .noElastic => "noelastic"
  | .valueError true => "errfaulty"
  | .valueError false => "errint"
  | .processor m d p =>
      let (kind, table) : String × List String :=
        match p.dom with
        | .always => ("0", [])
        | .chain => ("1", [])
        | .regions rs => ("2", probes.flatMap fun a => probes.map fun b =>
            encBool (crit (.regions rs) (probeAtom a) (probeAtom b)))
      " ".intercalate ["proc", "merge=" ++ encBool m, "sel=" ++ (if d then "default" else "list"),
        encList (p.names.map encStr), encRat p.lower, encRat p.upper, encRat p.decayFactor, encRat p.decayPower,
        encRat p.base, encRat p.minForce, encOptInt p.resMinDist, "dom=" ++ kind, encList table]

def encEvent : CliEvent → String
  | .mergeAll => "merge"
  | .network _ => "network"
  | .nameTypes d n => "name:" ++ encBool d ++ ":" ++ encStr (String.ofList n)

def interOf (t : Tok) : Option C03.Inter := do
  match ← t.list? with
  | [a, b, r] => pure { atoms := [← a.int?, ← b.int?], rest := ← r.str? }
  | _ => none

def molNetOf (t : Tok) : Option (C03.Mol × List C03.Inter) := do
  match ← t.list? with
  | [n, prior, net] =>
      let pr ← (← prior.list?).mapM interOf
      let m : C03.Mol :=
        { nrexcl := some 1, ff := some 0, metadata := [],
          nodes := (List.range (← n.nat?)).map fun i => { key := Int.ofNat i, attrs := [] },
          edges := [], inters := if pr.isEmpty then [] else [("bonds", pr)] }
      pure (m, ← (← net.list?).mapM interOf)
  | _ => none

def encUnit : UnitChoice → String
  | .molecule => "molecule"
  | .all => "all"
  | .chain => "chain"
  | .regions rs => "regions " ++ encList (rs.map fun r => encList [encInt r.1, encInt r.2])
  | .errInt => "errint"
  | .errFaulty => "errfaulty"

def handle (_ : Unit) (toks : List Tok) : Unit × String :=
  let r : Option String :=
    match toks with
    | [Tok.str "run", atoms, edges, params] => do
        let as ← (← atoms.list?).mapM atomOf
        let es ← (← edges.list?).mapM pairOf
        let p ← paramsOf params
        pure (encOutcome (run as es p))
    | [Tok.str "len5", d2] => do pure (encNat (len5Of (← d2.nat?)))
    | [Tok.str "lenbounds", d2] => do
        let b := lenBounds (← d2.nat?)
        pure (encNat b.1 ++ " " ++ encNat b.2)
    | [Tok.str "nodecay", dec, d2] => do
        match ← decayOf dec with
        | some d => pure (encBool (noDecay d (← d2.nat?)))
        | none => none
    | [Tok.str "resolve", proc, vars] => do
        let p ← procOf proc
        let vs ← (← vars.list?).mapM varOf
        pure (encOptions (resolveOptions p vs))
    | [Tok.str "history", proc, mols] => do
        let p ← procOf proc
        let ms ← (← mols.list?).mapM molOf
        pure (" ; ".intercalate ((runHistory p ms).map fun r =>
          match r.1 with
          | .error _ => "error"
          | .bonds (b :: bs) => encOutcome (.bonds (b :: bs)) ++ " bt=" ++ encInt r.2
          | o => encOutcome o))
    | [Tok.str "shared", procs, sched] => do
        let ps ← (← procs.list?).mapM procOf
        let sc ← (← sched.list?).mapM fun t => do
          match ← t.list? with
          | [i, m] => pure (← i.nat?, ← molOf m)
          | _ => none
        pure (" ; ".intercalate ((runInterleaved ps sc).map fun r =>
          match r.1 with
          | .error _ => "error"
          | .bonds (b :: bs) => encOutcome (.bonds (b :: bs)) ++ " bt=" ++ encInt r.2
          | o => encOutcome o))
    | [Tok.str "region", rs, ra, rb] => do
        let regs ← (← rs.list?).mapM pairOf
        let a : Atom := { (default : Atom) with oldResid := some (← ra.int?) }
        let b : Atom := { (default : Atom) with oldResid := some (← rb.int?) }
        pure (encBool (crit (.regions regs) a b))
    | [Tok.str "cli", el, go, ff, ef, lo, up, a, pw, em, ermd, eb, eunit, sep, molname, probes] => do
        let args : CliArgs :=
          { elastic := ← boolOf el, go := ← boolOf go, toFF := (← ff.str?).toList, ef := ← optRatOf ef,
            el := ← optRatOf lo, eu := ← optRatOf up, ea := ← optRatOf a, ep := ← optRatOf pw, em := ← optRatOf em,
            ermd := ← optCharsOf ermd, eb := ← optCharsOf eb, eunit := ← optCharsOf eunit,
            sep := ← boolOf sep, molname := ← optCharsOf molname }
        let evs := cliEvents args
        pure (encCli (← ints? probes) (cliBuild args) ++
          (if evs.isEmpty then "" else " then=" ++ ",".intercalate (evs.map encEvent)))
    | [Tok.str "typesafter", dedup, mols] => do
        let ms ← (← mols.list?).mapM molNetOf
        pure (encList ((typesAfterNetwork (← boolOf dedup) (ms.map (·.1)) (ms.map (·.2))).map encNat))
    | [Tok.str "unit", s] => do pure (encUnit (parseUnit (← s.str?).toList))
    | [Tok.str "pyint", s] => do pure (encOptInt (pyInt (← s.str?).toList))
    | [Tok.str "render", rs] => do
        let regs ← (← rs.list?).mapM pairOf
        pure (encStr (String.ofList (renderRegions regs)) ++ " " ++ encUnit (parseUnit (renderRegions regs)))
    | _ => none
  ((), r.getD "bad-op")

def main : IO Unit := runDriver handle ()
