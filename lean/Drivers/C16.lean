import VermouthModel.Proto
import VermouthModel.C16
import VermouthModel.C16_Format
import VermouthProps.C16Total
import Generated.C16Layout
import VermouthModel.C16_Full
import Generated.C16LayoutX
open Proto C16

/-
Protocol of driver_c16 (layouts come from Generated.C16Layout):

  pdbwrite <conect 0|1> <system>           -> ok [ xLINE ... ]            | err <name>
  pdbread  [ xEXCL ... ] <ignh> [ xLINE ... ] -> ok [ mol ... ] [ bond ... ] | err <name>
  growrite <system>                        -> ok [ xLINE ... ]   (atom lines only)
  growritep <precision> <system>           -> ok [ xLINE ... ]   (write_gro(precision=...))
  groread  [ xEXCL ... ] <ignh> [ xLINE ... ] -> ok [ atom ... ]            | err <name>

  pdbtrunc <system>                        -> ok [ mol ... ] | skip      (closed form `truncAtomOf` of the totality
  grotrunc <system>                        -> ok [ atom ... ] | skip      theorems, when `atomKeepB` / `groKeepB` hold)
  pdbwritex <conect> <omit_charges> <nan_missing_pos> <systemx>  -> ok [ xLINE ... ] | err <name>
  pdbreadx [ xEXCL ... ] <ignh> <modelidx> [ xLINE ... ] -> ok [ [ [ atomx ... ] [ [ i j ] ... ] box ] ... ] | err <name>
                                              (complete reader: MODEL, CRYST1, nan, charges, merging CONECT)
  growritex <precision> xTITLE [ boxval ... ] <systemx> -> ok [ xLINE ... ]  (whole file) | err <name>
  groreadx [ xEXCL ... ] <ignh> [ xLINE ... ] -> ok [ gatomx ... ] [ box ... ] | err <name>
  systemx: atoms carry three more entries: haspos 0|1, velocity - | [ vx vy vz ] (1e-4), charge;
  boxval = [ 0 int ] | [ 1 k p ]  (k / 10^p)
  fmtfield xSPEC <val>                     -> ok xTEXT | err valueerror|notimplemented|unmodelled
                                              (TruncFormatter.format_field; val = [ 0 int ] | [ 1 xSTR ] | [ 2 scaled ])

  system = [ mol ... ];  mol = [ [ atom ... ] [ [ u v ] ... ] ]
  atom   = [ key atomid name altloc resname chain resid icode x y z occ temp element ]  ('-' = None)
-/

def optChars (t : Tok) : Option (Option (List Char)) := do
  let s ← t.optStr?
  pure (s.map String.toList)

def atomOf (t : Tok) : Option Atom := do
  match ← t.list? with
  | [key, aid, nm, alt, rn, ch, rid, ic, x, y, z, occ, tmp, el] =>
      pure { key := ← key.int?, atomid := ← aid.optInt?, atomname := ← optChars nm, altloc := ← optChars alt,
             resname := ← optChars rn, chain := ← optChars ch, resid := ← rid.optInt?, icode := ← optChars ic,
             x := ← x.int?, y := ← y.int?, z := ← z.int?, occ := ← occ.optInt?, temp := ← tmp.optInt?,
             element := ← optChars el }
  | _ => none

def edgeOf (t : Tok) : Option (Int × Int) := do
  match ← t.list? with
  | [u, v] => pure (← u.int?, ← v.int?)
  | _ => none

def molOf (t : Tok) : Option Mol := do
  match ← t.list? with
  | [as, es] => pure { atoms := ← (← as.list?).mapM atomOf, edges := ← (← es.list?).mapM edgeOf }
  | _ => none

def sysOf (t : Tok) : Option (List Mol) := do (← t.list?).mapM molOf

def linesOf (t : Tok) : Option (List (List Char)) := do
  let l ← strs? t
  pure (l.map String.toList)

def encChars (s : List Char) : String := encStr (String.ofList s)
def encLines (ls : List (List Char)) : String := encList (ls.map encChars)
def errStr (e : Err) : String := "err " ++ e.toString

def encScaled (p : Nat) (v : Int × Nat) : Option String := (toScale p v).map encInt

def encPAtom (a : PAtom) : Option String := do
  let x ← encScaled 3 a.x
  let y ← encScaled 3 a.y
  let z ← encScaled 3 a.z
  let o ← encScaled 2 a.occ
  let t ← encScaled 2 a.temp
  pure (encList [encInt a.atomid, encChars a.atomname, encChars a.altloc, encChars a.resname, encChars a.chain,
                 encInt a.resid, encChars a.icode, x, y, z, o, t, encChars a.element])

def encGAtom (a : GAtom) : Option String := do
  let x ← encScaled 3 a.x
  let y ← encScaled 3 a.y
  let z ← encScaled 3 a.z
  pure (encList [encInt a.resid, encChars a.resname, encChars a.atomname, encInt a.atomid, x, y, z,
                 encChars [a.element]])

def bondLe (a b : Nat × Nat × Nat) : Bool :=
  a.1 < b.1 || (a.1 == b.1 && (a.2.1 < b.2.1 || (a.2.1 == b.2.1 && a.2.2 ≤ b.2.2)))

def dedupSorted : List (Nat × Nat × Nat) → List (Nat × Nat × Nat)
  | a :: b :: r => if a = b then dedupSorted (b :: r) else a :: dedupSorted (b :: r)
  | l => l

def canonBonds (bs : List (Nat × Nat × Nat)) : List (Nat × Nat × Nat) :=
  dedupSorted ((bs.map fun (m, i, j) => (m, min i j, max i j)).mergeSort bondLe)

def atomXOf (t : Tok) : Option AtomX := do
  let l ← t.list?
  match l.drop 14 with
  | [hp, vel, ch] =>
      let a ← atomOf (Tok.list (l.take 14))
      let v ← match vel with
        | Tok.none => some none
        | Tok.list [a, b, c] => do pure (some (← a.int?, ← b.int?, ← c.int?))
        | _ => none
      pure { atom := a, hasPos := (← hp.nat?) != 0, vel := v, charge := ← ch.int? }
  | _ => none

def molXOf (t : Tok) : Option MolX := do
  match ← t.list? with
  | [as, es] => pure { atoms := ← (← as.list?).mapM atomXOf, edges := ← (← es.list?).mapM edgeOf }
  | _ => none

def sysXOf (t : Tok) : Option (List MolX) := do (← t.list?).mapM molXOf

def boxValOf (t : Tok) : Option BoxVal := do
  match ← t.list? with
  | [Tok.int 0, i] => pure (.int (← i.int?))
  | [Tok.int 1, k, p] => pure (.dec (← k.int?) (← p.nat?))
  | _ => none

def encDec3 (p : Nat) (v : Dec × Dec × Dec) : Option String := do
  pure (encList [← encScaled p v.1, ← encScaled p v.2.1, ← encScaled p v.2.2])

def encPAtomX (a : PAtomX) : Option String := do
  let x ← if a.nan.1 then some "-" else encScaled 3 a.atom.x
  let y ← if a.nan.2.1 then some "-" else encScaled 3 a.atom.y
  let z ← if a.nan.2.2 then some "-" else encScaled 3 a.atom.z
  let o ← encScaled 2 a.atom.occ
  let t ← encScaled 2 a.atom.temp
  let c ← encScaled 2 a.charge
  pure (encList [encInt a.atom.atomid, encChars a.atom.atomname, encChars a.atom.altloc, encChars a.atom.resname,
                 encChars a.atom.chain, encInt a.atom.resid, encChars a.atom.icode, x, y, z, o, t,
                 encChars a.atom.element, c])

def pairLe (a b : Nat × Nat) : Bool := a.1 < b.1 || (a.1 == b.1 && a.2 ≤ b.2)

def dedupPairs : List (Nat × Nat) → List (Nat × Nat)
  | a :: b :: r => if a = b then dedupPairs (b :: r) else a :: dedupPairs (b :: r)
  | l => l

def encMolR (m : MolR) : Option String := do
  let as ← m.atoms.mapM encPAtomX
  let es := dedupPairs ((m.edges.map fun (i, j) => (min i j, max i j)).mergeSort pairLe)
  let box ← match m.box with
    | none => some "-"
    | some b => encDec3 4 b
  pure (encList [encList as, encList (es.map fun (i, j) => encList [encNat i, encNat j]), box])

def encGAtomX (a : GAtomX) : Option String := do
  let x ← encScaled 6 a.atom.x
  let y ← encScaled 6 a.atom.y
  let z ← encScaled 6 a.atom.z
  let v ← match a.vel with
    | none => some "-"
    | some v => encDec3 6 v
  pure (encList [encInt a.atom.resid, encChars a.atom.resname, encChars a.atom.atomname, encInt a.atom.atomid, x, y, z,
                 encChars [a.atom.element], v])

def valOf (t : Tok) : Option Val := do
  match ← t.list? with
  | [Tok.int 0, i] => pure (.int (← i.int?))
  | [Tok.int 1, s] => pure (.str (← s.str?).toList)
  | [Tok.int 2, k] => pure (.fix (← k.int?))
  | [Tok.int 3] => pure .nan
  | _ => none

def handle (_ : Unit) (toks : List Tok) : Unit × String :=
  let r : Option String :=
    match toks with
    | [Tok.str "pdbwrite", c, s] => do
        let conect ← c.nat?
        let sys ← sysOf s
        match writePdb Layout.pdb (conect != 0) sys with
        | .ok ls => pure ("ok " ++ encLines ls)
        | .error e => pure (errStr e)
    | [Tok.str "pdbread", ex, ih, ls] => do
        let excl ← linesOf ex
        let ignh ← ih.nat?
        let lines ← linesOf ls
        match readPdb Layout.pdb excl (ignh != 0) lines with
        | .error e => pure (errStr e)
        | .ok res =>
          match res.mols.mapM (fun m => (m.mapM encPAtom).map encList) with
          | none => pure "err scale"
          | some ms =>
            pure ("ok " ++ encList ms ++ " " ++
              encList ((canonBonds res.bonds).map fun (m, i, j) => encList [encNat m, encNat i, encNat j]))
    | [Tok.str "growrite", s] => do
        let sys ← sysOf s
        pure ("ok " ++ encLines (writeGro Layout.gro sys))
    | [Tok.str "growritep", pr, s] => do
        let p ← pr.nat?
        let sys ← sysOf s
        match writeGroPrec Layout.gro Layout.groFmts p sys with
        | .ok ls => pure ("ok " ++ encLines ls)
        | .error e => pure (errStr e)
    | [Tok.str "groread", ex, ih, ls] => do
        let excl ← linesOf ex
        let ignh ← ih.nat?
        let lines ← linesOf ls
        match readGro Layout.gro excl (ignh != 0) lines with
        | .error e => pure (errStr e)
        | .ok atoms =>
          match atoms.mapM encGAtom with
          | none => pure "err scale"
          | some as => pure ("ok " ++ encList as)
    | [Tok.str "pdbtrunc", s] => do
        let sys ← sysOf s
        if allSysB (atomKeepB []) 1 sys then
          match (expectedMols truncAtomOf 1 sys).mapM (fun m => (m.mapM encPAtom).map encList) with
          | none => pure "err scale"
          | some ms => pure ("ok " ++ encList ms)
        else pure "skip"
    | [Tok.str "grotrunc", s] => do
        let sys ← sysOf s
        let ps := groPairs 1 sys
        if !ps.isEmpty && ps.all (fun p => groKeepB [] p.2) then
          match (ps.map fun p => truncGAtomOf p.1 p.2).mapM encGAtom with
          | none => pure "err scale"
          | some as => pure ("ok " ++ encList as)
        else pure "skip"
    | [Tok.str "pdbwritex", c, oc, nm, s] => do
        let conect ← c.nat?
        let omitCh ← oc.nat?
        let nanm ← nm.nat?
        let sys ← sysXOf s
        match writePdbX Layout.pdb (conect != 0) (omitCh != 0) (nanm != 0) sys with
        | .ok ls => pure ("ok " ++ encLines ls)
        | .error e => pure (errStr e)
    | [Tok.str "pdbreadx", ex, ih, mi, ls] => do
        let excl ← linesOf ex
        let ignh ← ih.nat?
        let midx ← mi.int?
        let lines ← linesOf ls
        match readPdbX Layout.pdbX excl (ignh != 0) midx lines with
        | .error e => pure (errStr e)
        | .ok mols =>
          match mols.mapM encMolR with
          | none => pure "err scale"
          | some ms => pure ("ok " ++ encList ms)
    | [Tok.str "growritex", pr, ti, bx, s] => do
        let p ← pr.nat?
        let title ← ti.str?
        let box ← (← bx.list?).mapM boxValOf
        let sys ← sysXOf s
        match writeGroX Layout.groFmts Layout.groVelFmts p title.toList box sys with
        | .ok ls => pure ("ok " ++ encLines ls)
        | .error e => pure (errStr e)
    | [Tok.str "groreadx", ex, ih, ls] => do
        let excl ← linesOf ex
        let ignh ← ih.nat?
        let lines ← linesOf ls
        match readGroX Layout.gro excl (ignh != 0) lines with
        | .error e => pure (errStr e)
        | .ok (atoms, box) =>
          match atoms.mapM encGAtomX, box.mapM (encScaled 6) with
          | some as, some bs => pure ("ok " ++ encList as ++ " " ++ encList bs)
          | _, _ => pure "err scale"
    | [Tok.str "fmtfield", sp, v] => do
        let spec ← sp.str?
        let val ← valOf v
        match formatField spec.toList val with
        | .ok r => pure ("ok " ++ encChars r)
        | .error e => pure ("err " ++ e.toString)
    | _ => none
  ((), r.getD "bad-op")

def main : IO Unit := runDriver handle ()
