import VermouthModel.C03
open Proto C03

/- request:  sys <dedup 0|1> <exact 0|1> [ mol* ]
   mol   := [ nrexcl ff [ atom* ] [ [a b]* ] [ [name [ inter* ]]* ] [ [metakey [ [k [ val* ]]* ]]* ] ]
   atom  := [ key [ [attrname val]* ] ]
   val   := - | int | [ int ] (float, units 1e-12) | xhex
   inter := [ [key*] xhex ]
   response: names L groups L includes L src L pdb L gro L itp L
   hist <dedup> [ [ mol* ]* ]  ->  the same per system, joined by ' | ' -/

def valOf (t : Tok) : Option Val :=
  match t with
  | Tok.none => some Val.none
  | Tok.int i => some (Val.int i)
  | Tok.str s => some (Val.str s)
  | Tok.list [Tok.int n] => some (Val.num n)
  | _ => none

def attrOf (t : Tok) : Option (String × Val) := do
  match ← t.list? with
  | [k, v] => pure (← k.str?, ← valOf v)
  | _ => none

def atomOf (t : Tok) : Option Atom := do
  match ← t.list? with
  | [k, as] => pure { key := ← k.int?, attrs := ← (← as.list?).mapM attrOf }
  | _ => none

def pairOf (t : Tok) : Option (Int × Int) := do
  match ← t.list? with
  | [a, b] => pure (← a.int?, ← b.int?)
  | _ => none

def interOf (t : Tok) : Option Inter := do
  match ← t.list? with
  | [as, r] => pure { atoms := ← ints? as, rest := ← r.str? }
  | _ => none

def catOf (t : Tok) : Option (String × List Inter) := do
  match ← t.list? with
  | [n, l] => pure (← n.str?, ← (← l.list?).mapM interOf)
  | _ => none

def metaDictOf (t : Tok) : Option (String × List Val) := do
  match ← t.list? with
  | [k, vs] => pure (← k.str?, ← (← vs.list?).mapM valOf)
  | _ => none

def metaOf (t : Tok) : Option (String × MetaDict) := do
  match ← t.list? with
  | [k, d] => pure (← k.str?, ← (← d.list?).mapM metaDictOf)
  | _ => none

def molOf (t : Tok) : Option Mol := do
  match ← t.list? with
  | [nr, ff, ns, es, is, mt] =>
    pure { nrexcl := ← nr.optInt?, ff := ← ff.optInt?, nodes := ← (← ns.list?).mapM atomOf,
           edges := ← (← es.list?).mapM pairOf, inters := ← (← is.list?).mapM catOf,
           metadata := ← (← mt.list?).mapM metaOf }
  | _ => none

def encVal : Val → String
  | Val.none => "-"
  | Val.int i => encInt i
  | Val.num n => "[ " ++ encInt n ++ " ]"
  | Val.str s => encStr s

def encRec (r : Rec) : String := encList [encVal r.atomname, encVal r.resname, encVal r.resid]
def encRecs (l : List (List Rec)) : String := encList (l.map fun rs => encList (rs.map encRec))
def encNats (l : List Nat) : String := encList (l.map encNat)
def encPairs (l : List (Nat × Nat)) : String := encList (l.map fun p => encList [encNat p.1, encNat p.2])

def encSysOut (o : SysOut) : String :=
  "names " ++ encNats o.names ++ " groups " ++ encPairs o.groups
    ++ " includes " ++ encNats o.includes ++ " src " ++ encPairs o.src
    ++ " pdb " ++ encRecs o.pdb ++ " gro " ++ encRecs o.gro ++ " itp " ++ encRecs o.itp

def handle (_ : Unit) (toks : List Tok) : Unit × String :=
  let r : Option String :=
    match toks with
    | [Tok.str "sys", d, e, ms] => do
        let dedup := (← d.nat?) != 0
        let exact := (← e.nat?) != 0
        let sys ← (← ms.list?).mapM molOf
        let o := sysOut (if exact then exactClose else npClose) dedup sys
        pure ("names " ++ encNats o.names ++ " groups " ++ encPairs o.groups
              ++ " includes " ++ encNats o.includes ++ " src " ++ encPairs o.src
              ++ " pdb " ++ encRecs o.pdb ++ " gro " ++ encRecs o.gro ++ " itp " ++ encRecs o.itp)
    | [Tok.str "hist", d, ss] => do
        let dedup := (← d.nat?) != 0
        let syss ← (← ss.list?).mapM (fun t => do (← t.list?).mapM molOf)
        pure (" | ".intercalate ((historyOut npClose dedup syss).map encSysOut))
    | [Tok.str "sorted", ns] => do
        let nodes ← (← ns.list?).mapM atomOf
        pure (encList ((sortedNodes nodes).map fun a => encInt a.key))
    | [Tok.str "groups", ns] => do
        let names ← nats? ns
        pure (encPairs (groups names) ++ " " ++ encNats (includes names) ++ " " ++ encPairs (itpWrites names))
    | _ => none
  ((), r.getD "bad-op")

def main : IO Unit := runDriver handle ()
