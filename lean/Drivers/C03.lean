import VermouthModel.C03
import VermouthModel.C03_Text
import VermouthModel.C03_Top
import VermouthModel.C03_Sort
import VermouthModel.C03_Hist
import VermouthModel.C03_Cli
import Generated.C16Layout
import Generated.C02Tables
open Proto C03

/- request:  sys <dedup 0|1> <exact 0|1> [ mol* ]
   mol   := [ nrexcl ff [ atom* ] [ [a b]* ] [ [name [ inter* ]]* ] [ [metakey [ [k [ val* ]]* ]]* ] ]
   atom  := [ key [ [attrname val]* ] ]
   val   := - | int | [ int ] (float, units 1e-12) | xhex
   inter := [ [key*] xhex ]
   response: names L groups L includes L src L pdb L gro L itp L
   hist <dedup> [ [ mol* ]* ]  ->  the same per system, joined by ' | ' -/

def valOf (t : Tok) : Option Val :=
  match t with
  | Tok.none => some Val.none
  | Tok.int i => some (Val.int i)
  | Tok.str s => some (Val.str s)
  | Tok.list [Tok.int n] => some (Val.num n)
  | _ => none

def attrOf (t : Tok) : Option (String × Val) := do
  match ← t.list? with
  | [k, v] => pure (← k.str?, ← valOf v)
  | _ => none

def atomOf (t : Tok) : Option Atom := do
  match ← t.list? with
  | [k, as] => pure { key := ← k.int?, attrs := ← (← as.list?).mapM attrOf }
  | _ => none

def pairOf (t : Tok) : Option (Int × Int) := do
  match ← t.list? with
  | [a, b] => pure (← a.int?, ← b.int?)
  | _ => none

def interOf (t : Tok) : Option Inter := do
  match ← t.list? with
  | [as, r] => pure { atoms := ← ints? as, rest := ← r.str? }
  | _ => none

def catOf (t : Tok) : Option (String × List Inter) := do
  match ← t.list? with
  | [n, l] => pure (← n.str?, ← (← l.list?).mapM interOf)
  | _ => none

def metaDictOf (t : Tok) : Option (String × List Val) := do
  match ← t.list? with
  | [k, vs] => pure (← k.str?, ← (← vs.list?).mapM valOf)
  | _ => none

def metaOf (t : Tok) : Option (String × MetaDict) := do
  match ← t.list? with
  | [k, d] => pure (← k.str?, ← (← d.list?).mapM metaDictOf)
  | _ => none

def molOf (t : Tok) : Option Mol := do
  match ← t.list? with
  | [nr, ff, ns, es, is, mt] =>
    pure { nrexcl := ← nr.optInt?, ff := ← ff.optInt?, nodes := ← (← ns.list?).mapM atomOf,
           edges := ← (← es.list?).mapM pairOf, inters := ← (← is.list?).mapM catOf,
           metadata := ← (← mt.list?).mapM metaOf }
  | _ => none

def encVal : Val → String
  | Val.none => "-"
  | Val.int i => encInt i
  | Val.num n => "[ " ++ encInt n ++ " ]"
  | Val.str s => encStr s

def encRec (r : Rec) : String := encList [encVal r.atomname, encVal r.resname, encVal r.resid]
def encRecs (l : List (List Rec)) : String := encList (l.map fun rs => encList (rs.map encRec))
def encNats (l : List Nat) : String := encList (l.map encNat)
def encPairs (l : List (Nat × Nat)) : String := encList (l.map fun p => encList [encNat p.1, encNat p.2])

def encSysOut (o : SysOut) : String :=
  "names " ++ encNats o.names ++ " groups " ++ encPairs o.groups
    ++ " includes " ++ encNats o.includes ++ " src " ++ encPairs o.src
    ++ " pdb " ++ encRecs o.pdb ++ " gro " ++ encRecs o.gro ++ " itp " ++ encRecs o.itp

/-! ### text level (C03_Text / C03_Top): request

   text <dedup 0|1> <molname> <conect 0|1> [ tmol* ] [ header-line* ] [ define* ] [ [cite*]* ]
        [ param-key* ] <itp_paths: - | [ [key path]* ]> <names: - | [ name* ]>
   tmol  := [ mol [ deco* ] shell ]
   deco  := [ charge mass x y z occ temp ]        (strings; ints in 0.001 nm; occ/temp '-' or int/100)
   shell := [ nrexcl [ [name value]* ] [ [name [ inter* ]]* ] [ [sect [line*]]* ] [ [sect [line*]]* ] ]
   inter := [ [key*] [param*] ifdef ifndef group comment ]
   response: ok <names> params [ file* ] itps [ [stem idx text]* ] top xTEXT pdb (ok [ line* ] | err e) gro [ line* ]
           | err <e> pdb ... gro ... -/

def decoOf (t : Tok) : Option Deco := do
  match ← t.list? with
  | [c, m, x, y, z, o, tf] =>
    pure { charge := ← c.str?, mass := ← m.str?, x := ← x.int?, y := ← y.int?, z := ← z.int?,
           occ := ← o.optInt?, temp := ← tf.optInt? }
  | _ => none

def c02InterOf (t : Tok) : Option C02.Inter := do
  match ← t.list? with
  | [as, ps, d, nd, g, c] =>
    pure { atoms := ← ints? as, params := ← strs? ps, ifdef := ← d.optStr?, ifndef := ← nd.optStr?,
           group := ← g.optStr?, comment := ← c.optStr? }
  | _ => none

def namedOf {α} (f : Tok → Option α) (t : Tok) : Option (String × α) := do
  match ← t.list? with
  | [n, v] => pure (← n.str?, ← f v)
  | _ => none

def shellOf (t : Tok) : Option C02.Mol := do
  match ← t.list? with
  | [nr, defs, inters, pre, post] =>
    pure { moltype := "", nrexcl := ← nr.str?, header := [],
           defines := ← (← defs.list?).mapM (namedOf Tok.str?), atoms := [],
           inters := ← (← inters.list?).mapM (namedOf (fun v => do (← v.list?).mapM c02InterOf)),
           pre := ← (← pre.list?).mapM (namedOf strs?), post := ← (← post.list?).mapM (namedOf strs?) }
  | _ => none

def tmolOf (t : Tok) : Option TMol := do
  match ← t.list? with
  | [m, ds, sh] => pure { mol := ← molOf m, deco := ← (← ds.list?).mapM decoOf, shell := ← shellOf sh }
  | _ => none

def charsOf (t : Tok) : Option (List (List Char)) := do
  pure ((← strs? t).map String.toList)

def encChars (s : List Char) : String := encStr (String.ofList s)
def encLines (ls : List (List Char)) : String := encList (ls.map encChars)

def encC02Err : C02.Err → String
  | .valueerror => "valueerror" | .keyerror => "keyerror" | .indexerror => "indexerror"

def encTopErr : TopErr → String
  | .valueerror => "valueerror" | .indexerror => "indexerror" | .typeerror => "typeerror"
  | .keyerror => "keyerror" | .itp e => "itp-" ++ encC02Err e

def encTopParsed (p : TopParsed) : String :=
  encList [encList (p.defines.map encLines), encLines p.includes,
           encList (p.molecules.map fun g => encList [encChars g.1, encNat g.2])]

def textOp (pipeline : Bool) (dedup : Bool) (molname : String) (conect : Bool) (sys0 : List TMol)
    (header defines : List (List Char))
    (cites : List (List (List Char))) (params : List String) (paths : Option (List (String × String)))
    (given : Option (List String)) : String :=
  let names : List String := match given with
    | some ns => ns
    | none => (nameMolTypes (shareMolType npClose) dedup (sys0.map (·.mol))).map (molName molname)
  let inp0 : TopIn :=
    { sys := sys0, names := names.map String.toList, cites := cites, header := header,
      defines := defines, params := params, itpPaths := paths }
  -- `pipe`: martinize2's order (names of the unsorted molecules, then SortMoleculeAtoms(), then the writers)
  let inp : TopIn := if pipeline then pipelineIn dedup molname inp0 else inp0
  let sys := inp.sys
  let topPart := match writeTopology inp with
    | .error e => "err " ++ encTopErr e
    | .ok o =>
      let rt := match parseTop o.top with
        | .ok p => encTopParsed p
        | .error _ => "perr"
      "ok " ++ encList (names.map encStr) ++ " params " ++ encList (o.paramFiles.map encStr)
        ++ " itps " ++ encList (o.itps.map fun (n, i, _, text) => encList [encChars n, encNat i, encStr text])
        ++ " top " ++ encChars o.top ++ " parsed " ++ rt
  let pdbPart := match pdbLines C16.Layout.pdb conect sys with
    | .ok ls => "ok " ++ encLines ls
    | .error e => "err " ++ e.toString
  topPart ++ " pdb " ++ pdbPart ++ " gro " ++ encLines (groLines C16.Layout.gro sys)

/-! ### molecule objects (C03_Hist): request  heap [ mol* ] [ ev* ],  ev := [ 0 dedup mn [ obj* ] ] | [ 1 [ obj* ] ]
    response: one entry per write event, joined by ' | ':  names L groups L includes L src L  |  keyerror -/

def evOf (t : Tok) : Option Ev := do
  match ← t.list? with
  | [Tok.int 0, d, mn, ss] => pure (Ev.name ((← d.nat?) != 0) (← mn.nat?) (← nats? ss))
  | [Tok.int 1, ss] => pure (Ev.write (← nats? ss))
  | _ => none

def encMName (n : MName) : String := encList [encNat n.1, encNat n.2]

def encHeapOut : Option (TopOut MName) → String
  | none => "keyerror"
  | some o =>
    "groups " ++ encList (o.groups.map fun g => encList [encMName g.1, encNat g.2])
      ++ " includes " ++ encList (o.includes.map encMName)
      ++ " src " ++ encList (o.itps.map fun g => encList [encMName g.1, encNat g.2])

/-! ### martinize2's steps (C03_Cli): request  clisteps [ mol* ] [ step* ]
    step := [ 0 dedup ] (NameMolType) | [ 1 [ mol* ] ] (an editing processor: the molecules as it left them)
          | [ 2 mol ] (MergeAllMolecules: the merged molecule);   response: [ name-id | - ... ] -/

def stepOf (t : Tok) : Option Step := do
  match ← t.list? with
  | [Tok.int 0, d] => pure (Step.name ((← d.nat?) != 0))
  | [Tok.int 1, ms] =>
      let mols ← (← ms.list?).mapM molOf
      pure (Step.edit fun i m => mols.getD i m)
  | [Tok.int 2, m] =>
      let mol ← molOf m
      pure (Step.mergeAll fun _ => mol)
  | _ => none

def handle (_ : Unit) (toks : List Tok) : Unit × String :=
  let r : Option String :=
    match toks with
    | [Tok.str "sys", d, e, ms] => do
        let dedup := (← d.nat?) != 0
        let exact := (← e.nat?) != 0
        let sys ← (← ms.list?).mapM molOf
        let o := sysOut (if exact then exactClose else npClose) dedup sys
        pure ("names " ++ encNats o.names ++ " groups " ++ encPairs o.groups
              ++ " includes " ++ encNats o.includes ++ " src " ++ encPairs o.src
              ++ " pdb " ++ encRecs o.pdb ++ " gro " ++ encRecs o.gro ++ " itp " ++ encRecs o.itp)
    | [Tok.str "hist", d, ss] => do
        let dedup := (← d.nat?) != 0
        let syss ← (← ss.list?).mapM (fun t => do (← t.list?).mapM molOf)
        pure (" | ".intercalate ((historyOut npClose dedup syss).map encSysOut))
    | [Tok.str "text", d, mn, c, ms, hd, defs, cs, ps, paths, given] => do
        let dedup := (← d.nat?) != 0
        let conect := (← c.nat?) != 0
        let sys ← (← ms.list?).mapM tmolOf
        let cites ← (← cs.list?).mapM charsOf
        let pathsV ← match paths with
          | Tok.none => some none
          | t => do
              let l ← (← t.list?).mapM (namedOf Tok.str?)
              pure (some l)
        let givenV ← match given with
          | Tok.none => some none
          | t => do pure (some (← strs? t))
        pure (textOp false dedup (← mn.str?) conect sys (← charsOf hd) (← charsOf defs) cites (← strs? ps) pathsV givenV)
    | [Tok.str "pipe", d, mn, c, ms, hd, defs, cs, ps, paths] => do
        let dedup := (← d.nat?) != 0
        let conect := (← c.nat?) != 0
        let sys ← (← ms.list?).mapM tmolOf
        let cites ← (← cs.list?).mapM charsOf
        let pathsV ← match paths with
          | Tok.none => some none
          | t => do
              let l ← (← t.list?).mapM (namedOf Tok.str?)
              pure (some l)
        pure (textOp true dedup (← mn.str?) conect sys (← charsOf hd) (← charsOf defs) cites (← strs? ps) pathsV none)
    | [Tok.str "sortmol", as, tg, ns] => do
        -- SortMoleculeAtoms(sortby_attrs, target_attr).run_molecule: comparable flag, node keys in the new
        -- order, value of the target attribute per node
        let attrs ← strs? as
        let target ← tg.optStr?
        let nodes ← (← ns.list?).mapM atomOf
        let r := sortMoleculeAtoms attrs target nodes
        let tv := match target with
          | some k => encList (r.map fun a => encVal (getAttr a k))
          | none => "-"
        pure (encBool (comparable attrs nodes) ++ " " ++ encList (r.map fun a => encInt a.key) ++ " " ++ tv)
    | [Tok.str "clisteps", ms, ss] => do
        let mols ← (← ms.list?).mapM molOf
        let steps ← (← ss.list?).mapM stepOf
        let fin := runSteps (shareMolType npClose) (initState mols) steps
        pure (encList (fin.map fun p => match p.2 with | some g => encNat g | none => "-"))
    | [Tok.str "heap", ms, es] => do
        let mols ← (← ms.list?).mapM molOf
        let evs ← (← es.list?).mapM evOf
        let h : Heap := { mols := mols, names := mols.map fun _ => none }
        pure (" | ".intercalate ((runEvents (shareMolType npClose) h evs).map encHeapOut))
    | [Tok.str "sorted", ns] => do
        let nodes ← (← ns.list?).mapM atomOf
        pure (encList ((sortedNodes nodes).map fun a => encInt a.key))
    | [Tok.str "groups", ns] => do
        let names ← nats? ns
        pure (encPairs (groups names) ++ " " ++ encNats (includes names) ++ " " ++ encPairs (itpWrites names))
    | _ => none
  ((), r.getD "bad-op")

def main : IO Unit := runDriver handle ()
