import VermouthModel.C14
open Proto Iso C14

def boolOf (t : Tok) : Option Bool := do
  let i ← t.int?
  pure (i != 0)

def kvOf (t : Tok) : Option (String × Option String) := do
  match ← t.list? with
  | [k, v] => pure (← k.str?, ← v.optStr?)
  | _ => none

def attrsOf (t : Tok) : Option Attrs := do (← t.list?).mapM kvOf

def pairOf (t : Tok) : Option (Int × Int) := do
  match ← t.list? with
  | [u, v] => pure (← u.int?, ← v.int?)
  | _ => none

def pairsOf (t : Tok) : Option (List (Int × Int)) := do (← t.list?).mapM pairOf

def atomOf (t : Tok) : Option Atom := do
  match ← t.list? with
  | [k, r, p, h, ms, att] =>
    pure { key := ← k.int?, resid := ← r.int?, ptm := ← boolOf p, hasModKey := ← boolOf h,
           mods := ← nats? ms, attrs := ← attrsOf att }
  | _ => none

def matomOf (t : Tok) : Option MAtom := do
  match ← t.list? with
  | [k, p, att, rep] =>
    let r : Option Attrs ← (match rep with
      | Tok.none => some none
      | x => (attrsOf x).map some)
    pure { key := ← k.int?, ptm := ← boolOf p, attrs := ← attrsOf att, replace := r }
  | _ => none

def modifOf (t : Tok) : Option Modif := do
  match ← t.list? with
  | [n, ats, es] => pure { name := ← n.str?, atoms := ← (← ats.list?).mapM matomOf, edges := ← pairsOf es }
  | _ => none

def molOf (ats es : Tok) : Option Mol := do
  pure { atoms := ← (← ats.list?).mapM atomOf, edges := ← pairsOf es }

def givenOf (t : Tok) : Option (List (List (List Placement))) := do
  (← t.list?).mapM fun it => do (← it.list?).mapM fun op => do (← op.list?).mapM pairsOf

def fragOf (t : Tok) : Option Frag := do
  match ← t.list? with
  | [i, ps] => pure (← i.nat?, ← (← ps.list?).mapM pairsOf)
  | _ => none

def encInts (l : List Int) : String := encList (l.map encInt)
def encNats (l : List Nat) : String := encList (l.map encNat)

def leInts : List Int → List Int → Bool := lexLe

def encGroups (gs : List (List Int × List Int)) : String :=
  let canon := gs.map fun g => (sortInts g.1, sortInts g.2)
  let sorted := canon.mergeSort fun a b => leInts a.1 b.1
  encList (sorted.map fun g => encList [encInts g.1, encInts g.2])

def encCoverEntry (c : Nat × Placement) : String :=
  encList [encNat c.1, encList (c.2.map fun q => encList [encInt q.1, encInt q.2])]

def encCover (c : Cover) : String := encList (c.map encCoverEntry)

def encRes : Res → String
  | .ok c => "ok " ++ encCover c
  | .keyError => "keyerror"
  | .outOfFuel => "out-of-fuel"

def leStr (a b : String) : Bool := a ≤ b

def encAttrs (a : Attrs) : String :=
  let s := a.mergeSort fun x y => leStr x.1 y.1
  encList (s.map fun kv => encList [encStr kv.1, encOptStr kv.2])

def sortNats (l : List Nat) : List Nat := l.mergeSort fun a b => decide (a ≤ b)

def encAtom (sortMods : Bool) (a : Atom) : String :=
  encList [encInt a.key, encBool a.ptm, encNats (if sortMods then sortNats a.mods else a.mods), encAttrs a.attrs]

def encLog (l : IterLog) : String :=
  encList [encInts l.key, encNats l.allowedMods, encBool l.candsOk,
    match l.result with
    | none => "-"
    | some (u, c) => encList [encList ((u.map encCoverEntry).mergeSort leStr), encCover c]]

/-- one record at warning level: residue names in order, atoms (key, name as `str.format` prints it) sorted by key -/
def encWarn (w : WarnRec) : String :=
  let ats := w.atoms.mergeSort fun a b => decide (a.1 ≤ b.1)
  encList [encList (w.residues.map encStr), encList (ats.map fun a => encList [encInt a.1, encStr (fmtOpt a.2)])]

def encIdRes : IdRes → String
  | .ok u c => "ok " ++ encList ((u.map encCoverEntry).mergeSort leStr) ++ " " ++ encCover c
  | .keyError rm => "keyerror " ++ encInts (sortInts rm)
  | .outOfFuel => "out-of-fuel"

def groupOf (t : Tok) : Option Group := do
  match ← t.list? with
  | [a, b] => pure { atoms := ← ints? a, anchors := ← ints? b }
  | _ => none

def encOutcome (sortMods : Bool) : Outcome → String
  | .outOfFuel => "out-of-fuel"
  | .done s =>
    let atoms := s.mol.atoms.mergeSort fun a b => decide (a.key ≤ b.key)
    "ok " ++ encList (s.log.map encLog) ++ " " ++ encList (atoms.map (encAtom sortMods)) ++ " "
      ++ encList (s.warnings.map fun w => encInts (sortInts w)) ++ " " ++ encList (s.wlog.map encWarn)
      ++ " removed=" ++ encInts (sortInts s.removed)

def handle (_ : Unit) (toks : List Tok) : Unit × String :=
  let r : Option String :=
    match toks with
    | [Tok.str "groups", ats, es] => do
        let m ← molOf ats es
        let gs := findPtmGroups m
        let ok := gs.all fun g => g.2.all fun x => !m.extra.contains x
        pure (encGroups gs ++ " anchors-not-extra=" ++ encBool ok)
    | [Tok.str "cover", np, tc, frs] => do
        let tc ← ints? tc
        pure (encRes (coverGraph (← ints? np) tc.length tc (← (← frs.list?).mapM fragOf)))
    | [Tok.str "coverold", fuel, np, tc, frs] => do
        pure (encRes (coverGraphOld (← ints? np) (← fuel.nat?) (← ints? tc) (← (← frs.list?).mapM fragOf)))
    | [Tok.str "fixptm", ats, es, ms, gv, sm] => do
        let m ← molOf ats es
        let mods ← (← ms.list?).mapM modifOf
        pure (encOutcome (← boolOf sm) (fixPtm m mods (← givenOf gv)))
    | [Tok.str "identify", ats, es, ms, gs, gv] => do
        /- `identify_ptms(residue, residue_ptms, options)` called directly, `annotated=None`: the
        modifications already known are read from the nodes of the residue -/
        let m ← molOf ats es
        let mods ← (← ms.list?).mapM modifOf
        let groups ← (← gs.list?).mapM groupOf
        let given ← (← gv.list?).mapM fun op => do (← op.list?).mapM pairsOf
        let annot : Int → List Nat := fun k => ((m.atoms.find? fun a => a.key == k).map (·.mods)).getD []
        let al := allowed m.atoms m.edges mods
        pure (encNats al ++ " " ++ encBool (candsOk m.atoms m.edges mods given) ++ " "
          ++ encIdRes (identify m.atoms m.edges mods annot groups (al.zip given)))
    | [Tok.str "history", jobs] => do
        /- one processor instance, several calls: [ [atoms edges mods given sortmods] ... ] -/
        let js ← (← jobs.list?).mapM fun jt => do
          match ← jt.list? with
          | [ats, es, ms, gv, sm] =>
            let m ← molOf ats es
            let mods ← (← ms.list?).mapM modifOf
            pure ((m, mods, ← givenOf gv), ← boolOf sm)
          | _ => none
        let outs := ((Proc.mk).runHistory (js.map (·.1))).2
        pure (String.intercalate " || " ((outs.zip (js.map (·.2))).map fun os => encOutcome os.2 os.1))
    | [Tok.str "fixptmref", ats, es, ms] => do
        let m ← molOf ats es
        let mods ← (← ms.list?).mapM modifOf
        pure (encOutcome false (fixPtmRef m mods))
    | _ => none
  ((), r.getD "bad-op")

def main : IO Unit := runDriver handle ()
