import VermouthModel.C01_Mod
open Proto C01

def pairOf (t : Tok) : Option (Int × Int) := do
  match ← t.list? with
  | [a, b] => pure (← a.int?, ← b.int?)
  | _ => none

def pairsOfTok (t : Tok) : Option (List (Int × Int)) := do (← t.list?).mapM pairOf

def atomOf (t : Tok) : Option Atom := do
  match ← t.list? with
  | [k, r, rn, ch, h] => pure { key := ← k.int?, resid := ← r.int?, resname := ← rn.str?, chain := ← ch.str?,
                                isH := (← h.int?) != 0 }
  | _ => none

def bnodeOf (t : Tok) : Option (Int × C12.Attrs) := do
  match ← t.list? with
  | [k, n, r, c] => pure (← k.int?, { name := ← n.optStr?, resid := ← r.optInt?, cg := ← c.optInt? })
  | _ => none

def interOf (t : Tok) : Option (String × C12.Inter) := do
  match ← t.list? with
  | [ty, ats, pr, v] => pure (← ty.str?, { atoms := ← ints? ats, params := ← pr.str?, version := ← v.int? })
  | _ => none

def ratOf (n d : Tok) : Option Rat := do
  let n ← n.int?
  let d ← d.nat?
  if d = 0 then none else pure (mkRat n d)

def weightsOf (t : Tok) : Option Dict2 := do
  (← t.list?).mapM (fun row => do
    match ← row.list? with
    | [f, ws] =>
      let ws ← (← ws.list?).mapM (fun w => do
        match ← w.list? with
        | [b, n, d] => pure (← b.int?, ← ratOf n d)
        | _ => none)
      pure (← f.int?, ws)
    | _ => none)

def mapSpecOf (t : Tok) : Option MapSpec := do
  match ← t.list? with
  | [nodes, edges, inters, nrexcl, weights, refs] =>
    let ns ← (← nodes.list?).mapM bnodeOf
    let es ← pairsOfTok edges
    let is ← (← inters.list?).mapM interOf
    pure { blockTo := { nodes := ns, edges := es, inters := is, nrexcl := ← nrexcl.optInt? },
           weights := ← weightsOf weights, refs := ← pairsOfTok refs }
  | _ => none

def modNodeOf (t : Tok) : Option ModNode := do
  match ← t.list? with
  | [k, n, r, c, isNew] => pure { key := ← k.int?, attrs := { name := ← n.optStr?, resid := ← r.optInt?, cg := ← c.optInt? },
                                   isNew := (← isNew.int?) != 0 }
  | _ => none

def modSpecOf (t : Tok) : Option ModSpec := do
  match ← t.list? with
  | [nodes, edges, inters, weights, refs] =>
    pure { nodes := ← (← nodes.list?).mapM modNodeOf, edges := ← pairsOfTok edges,
           inters := ← (← inters.list?).mapM interOf, weights := ← weightsOf weights, refs := ← pairsOfTok refs }
  | _ => none

def strLt (a b : List String) : Bool :=
  match a, b with
  | [], [] => false
  | [], _ => true
  | _, [] => false
  | x :: xs, y :: ys => x < y || (x == y && strLt xs ys)

def rawOfTok (t : Tok) : Option (Nat × List (Int × Int)) := do
  match ← t.list? with
  | [i, m] => pure (← i.nat?, ← pairsOfTok m)
  | _ => none

def insertSorted [Ord α] (x : α) : List α → List α
  | [] => [x]
  | y :: ys => if compare x y == .gt then y :: insertSorted x ys else x :: y :: ys

def sortList [Ord α] (l : List α) : List α := l.foldr insertSorted []

def encRat (r : Rat) : String := toString r.num ++ "/" ++ toString r.den

def lexLt : List Int → List Int → Bool
  | [], [] => false
  | [], _ => true
  | _, [] => false
  | a :: as, b :: bs => a < b || (a == b && lexLt as bs)

def insertBy (lt : α → α → Bool) (x : α) : List α → List α
  | [] => [x]
  | y :: ys => if lt y x then y :: insertBy lt x ys else x :: y :: ys

def sortBy (lt : α → α → Bool) (l : List α) : List α := l.foldr (insertBy lt) []

def encBead (b : Bead) : String :=
  encList [encInt b.key, encOptStr b.name, encOptInt b.resid, encOptInt b.cg, encOptInt b.oldResid,
           encList ((sortBy (fun a b => a < b) b.atoms).map encInt),
           encList ((sortBy (fun (a b : Int × Rat) => a.1 < b.1) b.weights).map (fun w => encList [encInt w.1, encStr (encRat w.2)]))]

def normEdge (e : Int × Int) : List Int := if e.1 ≤ e.2 then [e.1, e.2] else [e.2, e.1]

def encResult (r : Result) : String :=
  "ok " ++ encList (r.beads.map encBead) ++ " "
    ++ encList ((sortBy lexLt (r.edges.map normEdge)).map (fun e => encList (e.map encInt))) ++ " "
    ++ encList ((sortBy (fun (a b : String × C12.Inter) => a.1 < b.1) r.inters).map (fun ti => encList [encStr ti.1, encList (ti.2.atoms.map encInt), encStr ti.2.params])) ++ " "
    ++ encList [encBool r.warn.overlap, encNat r.warn.garbage, encNat r.warn.disconnected,
                encBool r.warn.unmapped, encBool r.warn.hydrogens]

def mnodeOf (t : Tok) : Option MNode := do
  match ← t.list? with
  | [k, attrs, r] =>
    let as ← (← attrs.list?).mapM (fun kv => do
      match ← kv.list? with
      | [a, b] => pure (← a.str?, ← b.str?)
      | _ => none)
    pure { key := ← k.int?, attrs := as, resid := ← r.optInt? }
  | _ => none

def handle (_ : Unit) (toks : List Tok) : Unit × String :=
  let r : Option String :=
    match toks with
    | [Tok.str "map", atoms, edges, maps, raw] => do
        let as ← (← atoms.list?).mapM atomOf
        let es ← pairsOfTok edges
        let ms ← (← maps.list?).mapM mapSpecOf
        let rw ← (← raw.list?).mapM rawOfTok
        match doMapping { atoms := as, edges := es } ms rw with
        | .ok res => pure (encResult res)
        | .error e => pure ("error " ++ e.str)
    | [Tok.str "mapmod", atoms, edges, maps, raw, mods, rawMods] => do
        let as ← (← atoms.list?).mapM atomOf
        let es ← pairsOfTok edges
        let ms ← (← maps.list?).mapM mapSpecOf
        let rw ← (← raw.list?).mapM rawOfTok
        let md ← (← mods.list?).mapM modSpecOf
        let rm ← (← rawMods.list?).mapM rawOfTok
        match doMappingAll { atoms := as, edges := es } ms rw md rm with
        | .ok res => pure (encResult res)
        | .error e => pure ("error " ++ e.str)
    | [Tok.str "modselect", known, groups] => do
        let kn ← (← known.list?).mapM strs?
        let gr ← (← groups.list?).mapM strs?
        let needed := sortBy strLt (neededMods kn gr)
        pure (encList (needed.map (fun n => encList (n.map encStr))) ++ " " ++ encNat (uncoveredGroups kn gr))
    | [Tok.str "order", keysets] => do
        -- only the ordering: placements given by their atom keys; answer = the processing order
        let ks ← (← keysets.list?).mapM ints?
        let ps : List Placement := ks.map (fun k => { molToBlock := k.map (fun a => (a, [])), block := {}, refs := [] })
        pure (encList ((order ps).map (fun p => encList (p.atoms.map encInt))))
    | [Tok.str "matches", mnodes, medges, pnodes, pedges] => do
        let mn ← (← mnodes.list?).mapM mnodeOf
        let me ← pairsOfTok medges
        let pn ← (← pnodes.list?).mapM mnodeOf
        let pe ← pairsOfTok pedges
        let ms := refMatches mn me pn pe
        let canon := sortBy lexLt (ms.map (fun m => (sortBy (fun (a b : Int × Int) => a.1 < b.1) m).flatMap (fun p => [p.1, p.2])))
        pure (encList (canon.map (fun m => encList (m.map encInt))))
    | _ => none
  ((), r.getD "bad-op")

def main : IO Unit := runDriver handle ()
