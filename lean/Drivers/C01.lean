import VermouthModel.C01_Attr
import VermouthModel.C01_Pred
open Proto C01

def pairOf (t : Tok) : Option (Int × Int) := do
  match ← t.list? with
  | [a, b] => pure (← a.int?, ← b.int?)
  | _ => none

def pairsOfTok (t : Tok) : Option (List (Int × Int)) := do (← t.list?).mapM pairOf

def atomOf (t : Tok) : Option Atom := do
  match ← t.list? with
  | [k, r, rn, ch, h] => pure { key := ← k.int?, resid := ← r.int?, resname := ← rn.str?, chain := ← ch.str?,
                                isH := (← h.int?) != 0 }
  | _ => none

def bnodeOf (t : Tok) : Option (Int × C12.Attrs) := do
  match ← t.list? with
  | [k, n, r, c] => pure (← k.int?, { name := ← n.optStr?, resid := ← r.optInt?, cg := ← c.optInt? })
  | _ => none

def interOf (t : Tok) : Option (String × C12.Inter) := do
  match ← t.list? with
  | [ty, ats, pr, v] => pure (← ty.str?, { atoms := ← ints? ats, params := ← pr.str?, version := ← v.int? })
  | _ => none

def ratOf (n d : Tok) : Option Rat := do
  let n ← n.int?
  let d ← d.nat?
  if d = 0 then none else pure (mkRat n d)

def weightsOf (t : Tok) : Option Dict2 := do
  (← t.list?).mapM (fun row => do
    match ← row.list? with
    | [f, ws] =>
      let ws ← (← ws.list?).mapM (fun w => do
        match ← w.list? with
        | [b, n, d] => pure (← b.int?, ← ratOf n d)
        | _ => none)
      pure (← f.int?, ws)
    | _ => none)

def mapSpecOf (t : Tok) : Option MapSpec := do
  match ← t.list? with
  | [nodes, edges, inters, nrexcl, weights, refs] =>
    let ns ← (← nodes.list?).mapM bnodeOf
    let es ← pairsOfTok edges
    let is ← (← inters.list?).mapM interOf
    pure { blockTo := { nodes := ns, edges := es, inters := is, nrexcl := ← nrexcl.optInt? },
           weights := ← weightsOf weights, refs := ← pairsOfTok refs }
  | _ => none

def optTok {α : Type} (t : Tok) (f : Tok → Option (Option α)) : Option (Option (Option α)) := do
  match ← t.list? with
  | [] => pure none
  | [v] => pure (some (← f v))
  | _ => none

def modNodeOf (t : Tok) : Option ModNode := do
  match ← t.list? with
  | [k, n, r, c, isNew] => pure { key := ← k.int?, attrs := { name := ← n.optStr?, resid := ← r.optInt?, cg := ← c.optInt? },
                                   isNew := (← isNew.int?) != 0 }
  | [k, n, r, c, isNew, rn, rr, rc] =>
    -- with the `replace` dictionary: each of atomname / resid / charge_group as `[ ]` (absent) or `[ v ]`
    pure { key := ← k.int?, attrs := { name := ← n.optStr?, resid := ← r.optInt?, cg := ← c.optInt? },
           isNew := (← isNew.int?) != 0,
           repl := { name := ← optTok rn Tok.optStr?, resid := ← optTok rr Tok.optInt?, cg := ← optTok rc Tok.optInt? } }
  | _ => none

def modSpecOf (t : Tok) : Option ModSpec := do
  match ← t.list? with
  | [nodes, edges, inters, weights, refs] =>
    pure { nodes := ← (← nodes.list?).mapM modNodeOf, edges := ← pairsOfTok edges,
           inters := ← (← inters.list?).mapM interOf, weights := ← weightsOf weights, refs := ← pairsOfTok refs }
  | _ => none

def strLt (a b : List String) : Bool :=
  match a, b with
  | [], [] => false
  | [], _ => true
  | _, [] => false
  | x :: xs, y :: ys => x < y || (x == y && strLt xs ys)

def rawOfTok (t : Tok) : Option (Nat × List (Int × Int)) := do
  match ← t.list? with
  | [i, m] => pure (← i.nat?, ← pairsOfTok m)
  | _ => none

def insertSorted [Ord α] (x : α) : List α → List α
  | [] => [x]
  | y :: ys => if compare x y == .gt then y :: insertSorted x ys else x :: y :: ys

def sortList [Ord α] (l : List α) : List α := l.foldr insertSorted []

def encRat (r : Rat) : String := toString r.num ++ "/" ++ toString r.den

def lexLt : List Int → List Int → Bool
  | [], [] => false
  | [], _ => true
  | _, [] => false
  | a :: as, b :: bs => a < b || (a == b && lexLt as bs)

def insertBy (lt : α → α → Bool) (x : α) : List α → List α
  | [] => [x]
  | y :: ys => if lt y x then y :: insertBy lt x ys else x :: y :: ys

def sortBy (lt : α → α → Bool) (l : List α) : List α := l.foldr (insertBy lt) []

def encBead (b : Bead) : String :=
  encList [encInt b.key, encOptStr b.name, encOptInt b.resid, encOptInt b.cg, encOptInt b.oldResid,
           encList ((sortBy (fun a b => a < b) b.atoms).map encInt),
           encList ((sortBy (fun (a b : Int × Rat) => a.1 < b.1) b.weights).map (fun w => encList [encInt w.1, encStr (encRat w.2)]))]

def normEdge (e : Int × Int) : List Int := if e.1 ≤ e.2 then [e.1, e.2] else [e.2, e.1]

def encResult (r : Result) : String :=
  "ok " ++ encList (r.beads.map encBead) ++ " "
    ++ encList ((sortBy lexLt (r.edges.map normEdge)).map (fun e => encList (e.map encInt))) ++ " "
    ++ encList ((sortBy (fun (a b : String × C12.Inter) => a.1 < b.1) r.inters).map (fun ti => encList [encStr ti.1, encList (ti.2.atoms.map encInt), encStr ti.2.params])) ++ " "
    ++ encList [encBool r.warn.overlap, encNat r.warn.garbage, encNat r.warn.disconnected,
                encBool r.warn.unmapped, encBool r.warn.hydrogens]

def mnodeOf (t : Tok) : Option MNode := do
  match ← t.list? with
  | [k, attrs, r] =>
    let as ← (← attrs.list?).mapM (fun kv => do
      match ← kv.list? with
      | [a, b] => pure (← a.str?, ← b.str?)
      | _ => none)
    pure { key := ← k.int?, attrs := as, resid := ← r.optInt? }
  | _ => none

/-! ### the reference matcher with predicate-valued template attributes (`matchesp`) -/

def optStrs? (t : Tok) : Option (Option (List String)) :=
  match t with
  | Tok.none => some none
  | _ => (strs? t).map some

def anodeOf (t : Tok) : Option Pred.ANode := do
  match ← t.list? with
  | [k, attrs, r, mods] =>
    let as ← (← attrs.list?).mapM (fun kv => do
      match ← kv.list? with
      | [a, b] => pure (← a.str?, ← b.optStr?)
      | _ => none)
    pure { key := ← k.int?, attrs := as, resid := ← r.optInt?, mods := ← optStrs? mods }
  | _ => none

def tvalOf (t : Tok) : Option Pred.TVal := do
  match ← t.list? with
  | [Tok.str "p", v] => pure (.plain (← v.optStr?))
  | [Tok.str "c", vs] => pure (.choice (← (← vs.list?).mapM Tok.optStr?))
  | [Tok.str "n", v] => pure (.notDef (← v.optStr?))
  | _ => none

def tnodeOf (t : Tok) : Option Pred.TNode := do
  match ← t.list? with
  | [k, attrs, r, mods] =>
    let as ← (← attrs.list?).mapM (fun kv => do
      match ← kv.list? with
      | [a, b] => pure (← a.str?, ← tvalOf b)
      | _ => none)
    pure { key := ← k.int?, attrs := as, resid := ← r.optInt?, mods := ← optStrs? mods }
  | _ => none

/-! ### the extended run (`mapx`) -/

def valOf : Tok → Option Val
  | Tok.none => some Val.none
  | Tok.int i => some (Val.int i)
  | Tok.str s => some (Val.str s)
  | _ => none

def attrDOf (t : Tok) : Option AttrD := do
  (← t.list?).mapM (fun kv => do
    match ← kv.list? with
    | [k, v] => pure (← k.str?, ← valOf v)
    | _ => none)

def optAttrDOf : Tok → Option (Option AttrD)
  | Tok.none => some none
  | t => (attrDOf t).map some

def atomXOf (t : Tok) : Option AtomX := do
  match ← t.list? with
  | [k, attrs, repl, h] => pure { key := ← k.int?, attrs := ← attrDOf attrs, replace := ← optAttrDOf repl, isH := (← h.int?) != 0 }
  | _ => none

def fmtMapOf (t : Tok) : Option (List (String × Int)) := do
  (← t.list?).mapM (fun kv => do
    match ← kv.list? with
    | [k, v] => pure (← k.str?, ← v.int?)
    | _ => none)

def blockLogOf (t : Tok) : Option (String × String × List (List (String × Int))) := do
  match ← t.list? with
  | [lvl, e, maps] => pure (← lvl.str?, ← e.str?, ← (← maps.list?).mapM fmtMapOf)
  | _ => none

def mapSpecXOf (t : Tok) : Option MapSpecX := do
  match ← t.list? with
  | [nodes, edges, inters, nrexcl, ffOk, logs, cites, weights, refs] =>
    let ns3 ← (← nodes.list?).mapM (fun n => do
      match ← n.list? with
      | [k, d, nm] => pure (← k.int?, ← attrDOf d, ← nm.str?)
      | _ => none)
    let ns := ns3.map (fun x => (x.1, x.2.1))
    pure { blockTo := { nodes := ns, keyNames := ns3.map (fun x => x.2.2), edges := ← pairsOfTok edges, inters := ← (← inters.list?).mapM interOf,
                        nrexcl := ← nrexcl.optInt?, ffOk := (← ffOk.int?) != 0,
                        logs := ← (← logs.list?).mapM blockLogOf, cites := ← strs? cites },
           weights := ← weightsOf weights, refs := ← pairsOfTok refs }
  | _ => none

def modNodeXOf (t : Tok) : Option ModNodeX := do
  match ← t.list? with
  | [k, d, isNew, repl] => pure { key := ← k.int?, attrs := ← attrDOf d, isNew := (← isNew.int?) != 0, replace := ← attrDOf repl }
  | _ => none

def strPairOf (t : Tok) : Option (String × String) := do
  match ← t.list? with
  | [a, b] => pure (← a.str?, ← b.str?)
  | _ => none

def modSpecXOf (t : Tok) : Option ModSpecX := do
  match ← t.list? with
  | [nodes, edges, inters, weights, refs, logs, cites] =>
    pure { nodes := ← (← nodes.list?).mapM modNodeXOf, edges := ← pairsOfTok edges,
           inters := ← (← inters.list?).mapM interOf, weights := ← weightsOf weights, refs := ← pairsOfTok refs,
           logs := ← (← logs.list?).mapM strPairOf, cites := ← strs? cites }
  | _ => none

def encVal : Val → String
  | .none => "-"
  | .int i => encInt i
  | .str s => encStr s

def encAttrD (d : AttrD) : String :=
  encList ((sortBy (fun (a b : String × Val) => a.1 < b.1) d).map (fun kv => encList [encStr kv.1, encVal kv.2]))

def encParticle (p : ParticleX) : String :=
  encList [encInt p.key, encAttrD p.attrs,
           encList ((sortBy (fun a b => a < b) p.atoms).map encInt),
           encList ((sortBy (fun (a b : Int × Rat) => a.1 < b.1) p.weights).map (fun w => encList [encInt w.1, encStr (encRat w.2)])),
           encList (p.mods.map encNat)]

def strPairLt (a b : String × String) : Bool := a.1 < b.1 || (a.1 == b.1 && a.2 < b.2)

def encFmtMap (fm : List (String × Int)) : String :=
  encList ((sortBy (fun (a b : String × Int) => a.1 < b.1) fm).map (fun kv => encList [encStr kv.1, encInt kv.2]))

def encResultX (r : ResultX) : String :=
  "ok " ++ encList (r.particles.map encParticle) ++ " "
    ++ encList ((sortBy lexLt (r.edges.map normEdge)).map (fun e => encList (e.map encInt))) ++ " "
    ++ encList ((sortBy (fun (a b : String × C12.Inter) => a.1 < b.1) r.inters).map (fun ti => encList [encStr ti.1, encList (ti.2.atoms.map encInt), encStr ti.2.params])) ++ " "
    ++ encList [encBool r.warn.overlap,
                encList (r.garbage.map (fun kw => encList (kw.2.map encStr))),
                encNat r.warn.disconnected, encBool r.warn.unmapped, encBool r.warn.hydrogens, encNat r.multiMod] ++ " "
    ++ encList ((sortBy (fun a b => a < b) r.removed).map encInt) ++ " "
    ++ encList ((sortBy (fun (a b : (String × String) × List (List (String × Int))) => strPairLt a.1 b.1) r.logs).map
          (fun e => encList [encStr e.1.1, encStr e.1.2, encList (e.2.map encFmtMap)])) ++ " "
    ++ encList ((sortBy (fun (a b : String) => a < b) r.cites).map encStr)

def handle (_ : Unit) (toks : List Tok) : Unit × String :=
  let r : Option String :=
    match toks with
    | [Tok.str "map", atoms, edges, maps, raw] => do
        let as ← (← atoms.list?).mapM atomOf
        let es ← pairsOfTok edges
        let ms ← (← maps.list?).mapM mapSpecOf
        let rw ← (← raw.list?).mapM rawOfTok
        match doMapping { atoms := as, edges := es } ms rw with
        | .ok res => pure (encResult res)
        | .error e => pure ("error " ++ e.str)
    | [Tok.str "mapmod", atoms, edges, maps, raw, mods, rawMods] => do
        let as ← (← atoms.list?).mapM atomOf
        let es ← pairsOfTok edges
        let ms ← (← maps.list?).mapM mapSpecOf
        let rw ← (← raw.list?).mapM rawOfTok
        let md ← (← mods.list?).mapM modSpecOf
        let rm ← (← rawMods.list?).mapM rawOfTok
        match doMappingAll { atoms := as, edges := es } ms rw md rm with
        | .ok res => pure (encResult res)
        | .error e => pure ("error " ++ e.str)
    | [Tok.str "mapx", cfg, atoms, edges, cites, maps, raw, mods, rawMods] => do
        let c ← match ← cfg.list? with
          | [k, mu, st] => some ({ keep := ← strs? k, must := ← strs? mu, stash := ← strs? st } : Cfg)
          | _ => none
        let as ← (← atoms.list?).mapM atomXOf
        let es ← pairsOfTok edges
        let ms ← (← maps.list?).mapM mapSpecXOf
        let rw ← (← raw.list?).mapM rawOfTok
        let md ← (← mods.list?).mapM modSpecXOf
        let rm ← (← rawMods.list?).mapM rawOfTok
        match doMappingX c { atoms := as, edges := es, cites := ← strs? cites } ms rw md rm with
        | .ok res => pure (encResultX res)
        | .error e => pure ("error " ++ e.str)
    | [Tok.str "modselect", known, groups] => do
        let kn ← (← known.list?).mapM strs?
        let gr ← (← groups.list?).mapM strs?
        let needed := sortBy strLt (neededMods kn gr)
        pure (encList (needed.map (fun n => encList (n.map encStr))) ++ " " ++ encNat (uncoveredGroups kn gr))
    | [Tok.str "order", keysets] => do
        -- only the ordering: placements given by their atom keys; answer = the processing order
        let ks ← (← keysets.list?).mapM ints?
        let ps : List Placement := ks.map (fun k => { molToBlock := k.map (fun a => (a, [])), block := {}, refs := [] })
        pure (encList ((order ps).map (fun p => encList (p.atoms.map encInt))))
    | [Tok.str "matches", mnodes, medges, pnodes, pedges] => do
        let mn ← (← mnodes.list?).mapM mnodeOf
        let me ← pairsOfTok medges
        let pn ← (← pnodes.list?).mapM mnodeOf
        let pe ← pairsOfTok pedges
        let ms := refMatches mn me pn pe
        let canon := sortBy lexLt (ms.map (fun m => (sortBy (fun (a b : Int × Int) => a.1 < b.1) m).flatMap (fun p => [p.1, p.2])))
        pure (encList (canon.map (fun m => encList (m.map encInt))))
    | [Tok.str "matchesp", block, mnodes, medges, pnodes, pedges] => do
        let mn ← (← mnodes.list?).mapM anodeOf
        let me ← pairsOfTok medges
        let pn ← (← pnodes.list?).mapM tnodeOf
        let pe ← pairsOfTok pedges
        let ms := Pred.refMatchesP ((← block.int?) != 0) mn me pn pe
        let canon := sortBy lexLt (ms.map (fun m => (sortBy (fun (a b : Int × Int) => a.1 < b.1) m).flatMap (fun p => [p.1, p.2])))
        pure (encList (canon.map (fun m => encList (m.map encInt))))
    | _ => none
  ((), r.getD "bad-op")

def main : IO Unit := runDriver handle ()
