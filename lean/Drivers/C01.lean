import VermouthModel.Proto
open Proto

/-- placeholder driver for C01: replaced when the model is written -/
def handle (_ : Unit) (_ : List Tok) : Unit × String := ((), "bad-op")

def main : IO Unit := runDriver handle ()
