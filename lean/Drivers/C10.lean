import VermouthModel.C10_System
import VermouthModel.C10_Cli
import Generated.C10Radii
import Generated.C10Search
import Generated.C10Cli
open Proto C10

/-- atom name token: `-` = no 'atomname' attribute, `0` = the attribute is there with value None -/
def nameOfTok : Tok → Option (Option String × Bool)
  | Tok.none => some (none, false)
  | Tok.int 0 => some (none, true)
  | Tok.str s => some (some s, false)
  | _ => none

def atomOf (t : Tok) : Option InAtom := do
  match ← t.list? with
  | [sm, ss, ch, ri, rn, ic, nm, el, x, y, z] =>
    let (name, nameNone) ← nameOfTok nm
    let xo ← x.optInt?
    let yo ← y.optInt?
    let zo ← z.optInt?
    pure { staleMol := (← sm.optInt?).map Int.toNat, staleSerial := (← ss.optInt?).map Int.toNat,
           chain := ← ch.optStr?, resid := ← ri.optInt?, resname := ← rn.optStr?,
           icode := ← ic.optStr?, name := name, element := ← el.optStr?,
           x := xo.getD 0, y := yo.getD 0, z := zo.getD 0,
           nameNone := nameNone, hasPos := xo.isSome && yo.isSome && zo.isSome }
  | _ => none

def edgeOf (t : Tok) : Option Edge := do
  match ← t.list? with
  | [a, b] => pure (← a.nat?, ← b.nat?)
  | _ => none

/-- an input edge `[u v]` or `[u v f]` (f: 0 = no 'distance' attribute, 1 = the exact distance, 2 = nan) -/
def inEdgeOf (t : Tok) : Option (Edge × Nat) := do
  match ← t.list? with
  | [a, b] => pure ((← a.nat?, ← b.nat?), 0)
  | [a, b, d] => pure ((← a.nat?, ← b.nat?), ← d.nat?)
  | _ => none

/-- an input molecule and the distance flags of its edges -/
def molOfTok (t : Tok) : Option (InMol × List (Edge × Nat)) := do
  match ← t.list? with
  | [atoms, edges] =>
    let as ← (← atoms.list?).mapM atomOf
    let es ← (← edges.list?).mapM inEdgeOf
    pure ({ atoms := as, edges := es.map (·.1) }, es)
  | _ => none

def blockOf (t : Tok) : Option (String × Block) := do
  match ← t.list? with
  | [n, names, edges] =>
    pure (← n.str?, { names := ← strs? names, edges := ← (← edges.list?).mapM edgeOf })
  | _ => none

/-- flags of the input edges on union node keys (as `unionFrom` shifts them); a later duplicate wins
(`add_edge` on an existing edge updates its attributes) -/
def unionFlags : Nat → List (InMol × List (Edge × Nat)) → List (Edge × Nat)
  | _, [] => []
  | off, m :: ms => m.2.map (fun e => ((e.1.1 + off, e.1.2 + off), e.2)) ++ unionFlags (off + m.1.atoms.length) ms

def preAttr (S : Sys) (flags : List (Edge × Nat)) (u v : Nat) : DAttr :=
  match flags.reverse.find? (fun e => (e.1.1 == u && e.1.2 == v) || (e.1.1 == v && e.1.2 == u)) with
  | some (_, 1) => geomAttr S u v
  | some (_, 2) => DAttr.nan
  | _ => DAttr.absent

def encAttr (u v : Nat) : DAttr → String
  | DAttr.absent => encList [encNat u, encNat v, "1"]
  | DAttr.sq d => encList [encNat u, encNat v, "2", encNat d]
  | DAttr.nan => encList [encNat u, encNat v, "3"]

def render (S : Sys) (flags : List (Edge × Nat)) (R : Result) : String :=
  let n := S.atoms.length
  let es := (allPairs n).filterMap fun e =>
    if R.bonded S e.1 e.2 then some (encAttr e.1 e.2 (distanceAttr S R (preAttr S flags) e.1 e.2)) else none
  let loops := (List.range n).filterMap fun i =>
    if has S.pre i i then some (encAttr i i (preAttr S flags i i)) else none
  let ms := (orderedMols n R.mols).map fun m => encList (m.map encNat)
  let count := (R.mols.map List.length).sum
  "E " ++ encList (es ++ loops) ++ " M " ++ encList ms
    ++ " S " ++ encList ((List.range n).map fun i => encNat (serial S.atoms i))
    ++ " N " ++ encNat count

def handle (_ : Unit) (toks : List Tok) : Unit × String :=
  let r : Option String :=
    match toks with
    | [Tok.str "run", mols, ff, an, ad, p, q] => do
        let ms ← (← mols.list?).mapM molOfTok
        let ff ← (← ff.list?).mapM blockOf
        match runSystem searchSpec (ms.map (·.1)) ff vdwRadii ((← an.nat?) != 0) ((← ad.nat?) != 0) (← p.nat?) (← q.nat?) with
        | Outcome.unchanged => pure "unchanged"
        | Outcome.keyErrorPosition => pure "error:KeyError:position"
        | Outcome.ok S R => pure (render S (unionFlags 0 ms) R)
    | [Tok.str "cli", opt, fudge] => do
        -- `-bonds-from opt -bonds-fudge fudge` (`-` = option not given) -> arguments of MakeBonds
        match cliModes cliTable (← opt.optStr?), cliFudge cliTable (← fudge.optStr?) with
        | none, _ => pure "rejected"
        | some _, none => pure "fudge-not-modelled"
        | some (an, ad), some (p, q) => pure (encList [encBool an, encBool ad, encNat p, encNat q])
    | _ => none
  ((), r.getD "bad-op")

def main : IO Unit := runDriver handle ()
