import VermouthModel.C10
import Generated.C10Radii
open Proto C10

def atomOf (t : Tok) : Option InAtom := do
  match ← t.list? with
  | [sm, ss, ch, ri, rn, ic, nm, el, x, y, z] =>
    pure { staleMol := (← sm.optInt?).map Int.toNat, staleSerial := (← ss.optInt?).map Int.toNat,
           chain := ← ch.optStr?, resid := ← ri.optInt?, resname := ← rn.optStr?,
           icode := ← ic.optStr?, name := ← nm.optStr?, element := ← el.optStr?,
           x := ← x.int?, y := ← y.int?, z := ← z.int? }
  | _ => none

def edgeOf (t : Tok) : Option Edge := do
  match ← t.list? with
  | [a, b] => pure (← a.nat?, ← b.nat?)
  | _ => none

/-- an input edge `[u v]` or `[u v 1]` (1 = it already carries a 'distance' attribute) -/
def inEdgeOf (t : Tok) : Option (Edge × Bool) := do
  match ← t.list? with
  | [a, b] => pure ((← a.nat?, ← b.nat?), false)
  | [a, b, d] => pure ((← a.nat?, ← b.nat?), (← d.nat?) != 0)
  | _ => none

/-- an input molecule; second component: the same molecule with only the edges that carry a distance -/
def molOf (t : Tok) : Option (InMol × InMol) := do
  match ← t.list? with
  | [atoms, edges] =>
    let as ← (← atoms.list?).mapM atomOf
    let es ← (← edges.list?).mapM inEdgeOf
    pure ({ atoms := as, edges := es.map (·.1) }, { atoms := as, edges := (es.filter (·.2)).map (·.1) })
  | _ => none

def blockOf (t : Tok) : Option (String × Block) := do
  match ← t.list? with
  | [n, names, edges] =>
    pure (← n.str?, { names := ← strs? names, edges := ← (← edges.list?).mapM edgeOf })
  | _ => none

def labelOf (mols : List (List Nat)) (i : Nat) : Nat :=
  match mols.find? (fun p => p.contains i) with
  | some p => p.foldl min i
  | none => i

def render (S : Sys) (preD : List Edge) (R : Result) : String :=
  let n := S.atoms.length
  let es := (allPairs n).filterMap fun e =>
    if R.bonded S e.1 e.2 then
      some (encList [encNat e.1, encNat e.2, if R.hasDistance e.1 e.2 || has preD e.1 e.2 then "2" else "1"])
    else none
  let count := (R.mols.map List.length).sum
  "E " ++ encList es ++ " L " ++ encList ((List.range n).map fun i => encNat (labelOf R.mols i))
    ++ " S " ++ encList ((List.range n).map fun i => encNat (serial S.atoms i))
    ++ " N " ++ encNat count

def handle (_ : Unit) (toks : List Tok) : Unit × String :=
  let r : Option String :=
    match toks with
    | [Tok.str "run", mols, ff, an, ad, p, q] => do
        let ms ← (← mols.list?).mapM molOf
        let ff ← (← ff.list?).mapM blockOf
        let S := sysOf (ms.map (·.1)) ff vdwRadii ((← an.nat?) != 0) ((← ad.nat?) != 0) (← p.nat?) (← q.nat?)
        pure (render S (unionFrom 0 0 (ms.map (·.2))).2 (run S))
    | _ => none
  ((), r.getD "bad-op")

def main : IO Unit := runDriver handle ()
