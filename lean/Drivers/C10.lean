import VermouthModel.C10
import Generated.C10Radii
open Proto C10

def atomOf (t : Tok) : Option Atom := do
  match ← t.list? with
  | [m, ch, ri, rn, ic, nm, el, x, y, z] =>
    pure { mol := ← m.nat?, chain := ← ch.optStr?, resid := ← ri.optInt?, resname := ← rn.optStr?,
           icode := ← ic.optStr?, name := ← nm.optStr?, element := ← el.optStr?,
           x := ← x.int?, y := ← y.int?, z := ← z.int? }
  | _ => none

def edgeOf (t : Tok) : Option Edge := do
  match ← t.list? with
  | [a, b] => pure (← a.nat?, ← b.nat?)
  | _ => none

def blockOf (t : Tok) : Option (String × Block) := do
  match ← t.list? with
  | [n, names, edges] =>
    pure (← n.str?, { names := ← strs? names, edges := ← (← edges.list?).mapM edgeOf })
  | _ => none

def labelOf (mols : List (List Nat)) (i : Nat) : Nat :=
  match mols.find? (fun p => p.contains i) with
  | some p => p.foldl min i
  | none => i

def render (S : Sys) (R : Result) : String :=
  let n := S.atoms.length
  let es := (allPairs n).filterMap fun e =>
    if R.bonded S e.1 e.2 then
      some (encList [encNat e.1, encNat e.2, if R.hasDistance e.1 e.2 then "2" else "1"])
    else none
  let count := (R.mols.map List.length).sum
  "E " ++ encList es ++ " L " ++ encList ((List.range n).map fun i => encNat (labelOf R.mols i))
    ++ " S " ++ encList ((List.range n).map fun i => encNat (serial S.atoms i))
    ++ " N " ++ encNat count

def handle (_ : Unit) (toks : List Tok) : Unit × String :=
  let r : Option String :=
    match toks with
    | [Tok.str "run", atoms, pre, ff, an, ad, p, q] => do
        let atoms ← (← atoms.list?).mapM atomOf
        let pre ← (← pre.list?).mapM edgeOf
        let ff ← (← ff.list?).mapM blockOf
        let S : Sys := { atoms := atoms, pre := pre, ff := ff, radii := vdwRadii,
                         allowName := (← an.nat?) != 0, allowDist := (← ad.nat?) != 0,
                         p := ← p.nat?, q := ← q.nat? }
        pure (render S (run S))
    | _ => none
  ((), r.getD "bad-op")

def main : IO Unit := runDriver handle ()
