import VermouthModel.C05
import VermouthModel.C05_Run
import VermouthModel.C05_Text
open Proto Iso C05

/-
Encoding (see harness/c05.py):
  Val    : `-` | int | xstr | [ 0 b ] (bool) | [ 1 s.. ] (list of str)
  TVal   : Val | [ 2 v.. ] (Choice) | [ 3 v ] (NotDefinedOrNot)
  Attrs  : [ [ key val ].. ]
  Order  : int | xstr | [ 0 b ] | `-`
  Param  : xstr | [ name [keys] fmt ]
  Mol    : nodes edges md inters cites      node = [ key attrs [ [name-part..].. ] ]
  Link   : [ nodes edges molmeta nonEdges patterns removed inters cites ]
  Pos    : `-` (no position key) | [ x y z ] (lattice point) | xstr (any other position)
  LinkLogs : [ [ level entry [ tag.. ] ].. ]      Logs : [ [ level entry [ item.. ] ].. ], item = xstr | [ [k v].. ]
-/

def valOf : Tok → Option Val
  | Tok.none => some Val.none
  | Tok.int i => some (Val.int i)
  | Tok.str s => some (Val.str s)
  | Tok.list (Tok.int 0 :: [Tok.int b]) => some (Val.bool (b != 0))
  | Tok.list (Tok.int 1 :: rest) => (rest.mapM Tok.str?).map Val.list
  | _ => none

def tvalOf : Tok → Option TVal
  | Tok.list (Tok.int 2 :: rest) => (rest.mapM valOf).map TVal.choice
  | Tok.list [Tok.int 3, v] => (valOf v).map TVal.notDef
  | t => (valOf t).map TVal.plain

def kvOf (f : Tok → Option α) (t : Tok) : Option (String × α) := do
  match ← t.list? with
  | [k, v] => pure (← k.str?, ← f v)
  | _ => none

def attrsOf (t : Tok) : Option Attrs := do (← t.list?).mapM (kvOf valOf)
def tattrsOf (t : Tok) : Option TAttrs := do (← t.list?).mapM (kvOf tvalOf)

def orderOf : Tok → Option Order
  | Tok.int i => some (Order.num i)
  | Tok.str s => some (Order.str s.toList)
  | Tok.list [Tok.int 0, Tok.int b] => some (Order.bool (b != 0))
  | Tok.none => some Order.bad
  | _ => none

def paramOf : Tok → Option Param
  | Tok.str s => some (Param.lit s)
  | Tok.list [n, ks, f] => do pure (Param.eff (← n.str?) (← ints? ks) (← f.optStr?))
  | _ => none

def pairOf (t : Tok) : Option (Int × Int) := do
  match ← t.list? with
  | [u, v] => pure (← u.int?, ← v.int?)
  | _ => none

def interOf (t : Tok) : Option (String × Inter) := do
  match ← t.list? with
  | [ty, atoms, params, md] =>
    pure (← ty.str?, { atoms := ← ints? atoms, params := ← (← params.list?).mapM paramOf, md := ← attrsOf md })
  | _ => none

def mnodeOf (t : Tok) : Option MNode := do
  match ← t.list? with
  | [k, a, mods] => pure { key := ← k.int?, attrs := ← attrsOf a, mods := ← (← mods.list?).mapM strs? }
  | _ => none

def molOf (nodes edges md inters cites : Tok) : Option Mol := do
  pure { nodes := ← (← nodes.list?).mapM mnodeOf, edges := ← (← edges.list?).mapM pairOf,
         md := ← attrsOf md, inters := ← (← inters.list?).mapM interOf, cites := ← strs? cites }

def lnodeOf (t : Tok) : Option LNode := do
  match ← t.list? with
  | [k, a, r] =>
    let rep ← (match r with
      | Tok.none => some Option.none
      | r => (attrsOf r).map some)
    pure { key := ← k.int?, attrs := ← tattrsOf a, replace := rep }
  | _ => none

def keyedOf (t : Tok) : Option (Int × TAttrs) := do
  match ← t.list? with
  | [k, a] => pure (← k.int?, ← tattrsOf a)
  | _ => none

def delOf (t : Tok) : Option (String × LDel) := do
  match ← t.list? with
  | [ty, atoms, params, aa, md] =>
    let aas ← (match aa with
      | Tok.none => some Option.none
      | aa => do pure (some (← (← aa.list?).mapM tattrsOf)))
    pure (← ty.str?, { atoms := ← ints? atoms, params := ← (← params.list?).mapM paramOf,
                        atomAttrs := aas, md := ← tattrsOf md })
  | _ => none

def linkOf (t : Tok) : Option Link := do
  match ← t.list? with
  | [nodes, edges, mm, nes, pats, rem, ints, cites] =>
    pure { nodes := ← (← nodes.list?).mapM lnodeOf, edges := ← (← edges.list?).mapM pairOf,
           molmeta := ← tattrsOf mm, nonEdges := ← (← nes.list?).mapM keyedOf,
           patterns := ← (← pats.list?).mapM (fun p => do (← p.list?).mapM keyedOf),
           removed := ← (← rem.list?).mapM delOf, inters := ← (← ints.list?).mapM interOf,
           cites := ← strs? cites }
  | _ => none

def mapOfTok (t : Tok) : Option Map := do (← t.list?).mapM pairOf

/- encoders -/
def encVal : Val → String
  | .none => "-"
  | .int i => encInt i
  | .bool b => encList ["0", encBool b]
  | .str s => encStr s
  | .list l => encList ("1" :: l.map encStr)

def encAttrs (a : Attrs) : String := encList (a.map fun kv => encList [encStr kv.1, encVal kv.2])

def encParam : Param → String
  | .lit s => encStr s
  | .eff n ks f => encList [encStr n, encList (ks.map encInt), encOptStr f]

def encMap (m : Map) : String := encList (m.map fun p => encList [encInt p.1, encInt p.2])

def encMol (m : Mol) : String :=
  encList (m.nodes.map fun n => encList [encInt n.key, encAttrs n.attrs]) ++ " " ++
  encList (m.edges.map fun e => encList [encInt e.1, encInt e.2]) ++ " " ++
  encList (m.inters.map fun e => encList [encStr e.1, encList (e.2.atoms.map encInt),
                                           encList (e.2.params.map encParam), encAttrs e.2.md]) ++ " " ++
  encList (m.cites.map encStr)

/- positions, logs, evaluated parameters -/
def posOfTok : Tok → Option Pos
  | Tok.none => some Pos.missing
  | Tok.list [x, y, z] => do pure (Pos.lattice (← x.int?) (← y.int?) (← z.int?))
  | Tok.str _ => some Pos.opaque
  | _ => none

def posTableOf (t : Tok) : Option (List (Int × Pos)) := do
  (← t.list?).mapM fun e => do
    match ← e.list? with
    | [k, p] => pure (← k.int?, ← posOfTok p)
    | _ => none

def linkLogsOf (t : Tok) : Option LinkLogs := do
  (← t.list?).mapM fun e => do
    match ← e.list? with
    | [lv, en, tags] => pure (← lv.int?, ← en.str?, ← strs? tags)
    | _ => none

def logItemOf : Tok → Option LogItem
  | Tok.str s => some (LogItem.tag s)
  | t => (mapOfTok t).map LogItem.place

def logsOf (t : Tok) : Option Logs := do
  (← t.list?).mapM fun e => do
    match ← e.list? with
    | [lv, en, items] => pure ((← lv.int?, ← en.str?), ← (← items.list?).mapM logItemOf)
    | _ => none

def encEVal : Except EffErr EVal → String
  | .ok (.lit s) => encStr s
  | .ok (.dist2 d f) => encList [encStr "dist2", encInt d, encOptStr f]
  | .ok (.sym n ks f) => encList [encStr n, encList (ks.map encInt), encOptStr f]
  | .error .keyError => encStr "!KeyError"
  | .error .notImplemented => encStr "!NotImplementedError"

def encErr : EffErr → String
  | .keyError => "KeyError"
  | .notImplemented => "NotImplementedError"

def encInters (pos : PosFn) (t : Table) : String :=
  encList (t.map fun e => encList [encStr e.1, encList (e.2.atoms.map encInt),
                                    encList (e.2.params.map fun p => encEVal (evalParam pos p)), encAttrs e.2.md])

def encLogs (lg : Logs) : String :=
  encList (lg.map fun e => encList [encInt e.1.1, encStr e.1.2,
    encList (e.2.map fun | .tag s => encStr s | .place mp => encMap mp)])

/-- the call sequence of the run; for every addition whether a later step interferes with it -/
def encEvents (s0 : Mol × List Int) (evs : List Ev) : String :=
  let tr := trace s0 evs
  let rec go : List ((Mol × List Int) × Ev) → List String
    | [] => []
    | (s, ev) :: rest =>
      (match ev with
       | .setAttrs k _ => encList [encStr "set", encInt k]
       | .mark k => encList [encStr "mark", encInt k]
       | .rem ty d => encList [encStr "rem", encStr ty, encList (d.atoms.map encInt)]
       | .add x _ =>
         let wr := rest.any fun e => e.2.writes (keyOf x)
         let rm := rest.any fun e => removesAt (keyOf x) x.2 e
         let dl := rest.any fun e => deletesAt x.2 e
         encList [encStr "add", encStr x.1, encList (x.2.atoms.map encInt), encVal (versionOf x.2.md),
                  encBool wr, encBool rm, encBool dl]
       | .drop => encList [encStr "drop", encList (s.2.map encInt)]) :: go rest
  encList (go tr)

def encMolX (pos : PosFn) (m : Mol) (lg : Logs) (events : String) : String :=
  encList (m.nodes.map fun n => encList [encInt n.key, encAttrs n.attrs]) ++ " " ++
  encList (m.edges.map fun e => encList [encInt e.1, encInt e.2]) ++ " " ++
  encInters pos m.inters ++ " " ++
  encList (m.cites.map encStr) ++ " " ++ encLogs lg ++ " " ++ events

def optAttrsOf : Tok → Option (Option Attrs)
  | Tok.none => some none
  | t => (attrsOf t).map some

/-- one call of the interaction-table API; the result is `none` when the call raises -/
def tableOp (m : Mol) (t : Tok) : Option (Option Mol) := do
  match ← t.list? with
  | [Tok.str "add", ty, atoms, params, md] =>
    pure (addInteraction m (← ty.str?) (← ints? atoms) (← (← params.list?).mapM paramOf) (← optAttrsOf md))
  | [Tok.str "addrep", ty, atoms, params, md, cites] =>
    let cs ← (match cites with
      | Tok.none => some Option.none
      | c => (strs? c).map some)
    pure (addOrReplaceInteraction m (← ty.str?) (← ints? atoms) (← (← params.list?).mapM paramOf)
            (← optAttrsOf md) cs)
  | [Tok.str "remove", ty, atoms, ver] =>
    pure (removeInteraction m (← ty.str?) (← ints? atoms) (← valOf ver))
  | [Tok.str "remmatch", d] =>
    let (ty, del) ← delOf d
    pure (removeMatchingE m ty del)
  | _ => none

def runTableOps : Mol → List Tok → List String → Option (Mol × List String)
  | m, [], acc => some (m, acc.reverse)
  | m, t :: rest, acc =>
    match tableOp m t with
    | none => none
    | some none => runTableOps m rest ("0" :: acc)
    | some (some m') => runTableOps m' rest ("1" :: acc)


/-- the answer to an `apply` line (also used for links built from their text form) -/
def applyOut (m : Mol) (ls : List Link) (given pos llogs logs0 : Tok) : Option String := do
  let gs ← (← given.list?).mapM (fun g => do (← g.list?).mapM mapOfTok)
  let ptab ← posTableOf pos
  let posf : PosFn := fun a => ptab.lookup a
  let lls ← (← llogs.list?).mapM linkLogsOf
  let lg0 ← logsOf logs0
  let res := applyLinksX posf m ls gs
  let flag := encBool res.maybe
  match res.out with
  | .error .matching => pure (flag ++ " " ++ encStr "error" ++ " " ++ encStr "match")
  | .error (.eff e) => pure (flag ++ " " ++ encStr "error" ++ " " ++ encStr (encErr e))
  | .ok s =>
    let log := runLog (m, []) ls gs
    let evs := logEvents log
    let s' := run (m, []) evs
    -- `applyLinks = run ∘ runEvents` is a theorem; the driver executes both and says so if they differ
    let same := encMol s.1 == encMol s'.1
    pure (flag ++ " " ++ (if same then "" else encStr "RUN-DIFFERS" ++ " ") ++
          encMolX posf s.1 (runLogs log lls lg0) (encEvents (m, []) evs) ++ " " ++
          encList (s.1.nodes.map fun n => encList [encInt n.key, encAttrs (attrWrites n.key evs)]))

/-! links in text form (see VermouthModel/C05_Text.lean)
  DLink   : [ wide items cites ]
  item    : [ "atom" mention ] | [ "smeta" ty attrs ] | [ "inter" ty del [mention..] [param..] attrs ]
          | [ "edge" mention mention ] | [ "nonedge" mention mention ] | [ "pattern" [[key tattrs]..] ]
          | [ "molmeta" key tval ] | [ "other" ]
  mention : [ key [prefix-order]? base written replace ]      ([] = no prefix; replace: attrs | `-`) -/
def encTVal : TVal → String
  | .plain v => encVal v
  | .choice vs => encList ("2" :: vs.map encVal)
  | .notDef v => encList ["3", encVal v]

def encTAttrs (a : TAttrs) : String := encList (a.map fun kv => encList [encStr kv.1, encTVal kv.2])

def encPairs (l : List (Int × Int)) : String := encList (l.map fun e => encList [encInt e.1, encInt e.2])

def encKeyed (l : List (Int × TAttrs)) : String := encList (l.map fun e => encList [encInt e.1, encTAttrs e.2])

def encLink (l : Link) : String :=
  encList [
    encList (l.nodes.map fun n => encList [encInt n.key, encTAttrs n.attrs,
      (match n.replace with | none => "-" | some r => encAttrs r)]),
    encPairs l.edges, encTAttrs l.molmeta, encKeyed l.nonEdges, encList (l.patterns.map encKeyed),
    encList (l.removed.map fun e => encList [encStr e.1, encList (e.2.atoms.map encInt),
      encList (e.2.params.map encParam),
      (match e.2.atomAttrs with | none => "-" | some aa => encList (aa.map encTAttrs)), encTAttrs e.2.md]),
    encList (l.inters.map fun e => encList [encStr e.1, encList (e.2.atoms.map encInt),
      encList (e.2.params.map encParam), encAttrs e.2.md]),
    encList (l.cites.map encStr)]

def siteOf (t : Tok) : Option Site := do
  match ← t.str? with
  | "atom" => some .atomLine
  | "inter" => some .interAtom
  | "nonedge" => some .nonEdgePartner
  | "pattern" => some .patternAtom
  | "del" => some .delAtom
  | _ => none

def mentionOf (t : Tok) : Option Mention := do
  match ← t.list? with
  | [k, po, base, written, rep] =>
    let p ← (match ← po.list? with
      | [] => some Option.none
      | [v] => (tvalOf v).map some
      | _ => none)
    let r ← (match rep with
      | Tok.none => some Option.none
      | r => (attrsOf r).map some)
    pure { key := ← k.int?, prefixOrder := p, base := ← base.str?, written := ← tattrsOf written, replace := r }
  | _ => none

def ditemOf (t : Tok) : Option DItem := do
  match ← t.list? with
  | [Tok.str "atom", m] => pure (.atom (← mentionOf m))
  | [Tok.str "smeta", ty, a] => pure (.secMeta (← ty.str?) (← attrsOf a))
  | [Tok.str "inter", ty, del, atoms, params, md] =>
    pure (.inter (← ty.str?) ((← del.int?) != 0) (← (← atoms.list?).mapM mentionOf)
            (← (← params.list?).mapM paramOf) (← attrsOf md))
  | [Tok.str "edge", a, b] => pure (.edge (← mentionOf a) (← mentionOf b))
  | [Tok.str "nonedge", a, b] => pure (.nonEdge (← mentionOf a) (← mentionOf b))
  | [Tok.str "pattern", atoms] => pure (.pattern (← (← atoms.list?).mapM keyedOf))
  | [Tok.str "molmeta", k, v] => pure (.molmeta (← k.str?) (← tvalOf v))
  | [Tok.str "other"] => pure .other
  | _ => none

/-- outer `none`: malformed protocol line; inner `none`: the reader rejects the link -/
def dlinkOf (t : Tok) : Option (Option Link) := do
  match ← t.list? with
  | [wide, items, cites] =>
    pure (buildLink (← tattrsOf wide) (← (← items.list?).mapM ditemOf) (← strs? cites))
  | _ => none

def handle (_ : Unit) (toks : List Tok) : Unit × String :=
  let r : Option String :=
    match toks with
    | [Tok.str "order", o1, r1, o2, r2] => do
        match matchOrder (← orderOf o1) (← r1.int?) (← orderOf o2) (← r2.int?) with
        | some b => pure (encBool b)
        | none => pure "valueerror"
    | [Tok.str "interp", o] => do
        match interpretOrder (← orderOf o) with
        | some (t, v) => pure ((match t with | .number => "number" | .angle => "angle" | .star => "star") ++ " " ++ encInt v)
        | none => pure "valueerror"
    | [Tok.str "atoms", node, ta] => do
        pure (encBool (atomsMatch (← mnodeOf node) (← tattrsOf ta)))
    | [Tok.str "match", nodes, edges, md, link] => do
        let m ← molOf nodes edges md (Tok.list []) (Tok.list [])
        let l ← linkOf link
        let nraw := if attributesMatch m.md l.molmeta [] then (rawMatches m l).length else 0
        match matchLinkV m l with
        | .yields ps => pure (encNat nraw ++ " " ++ encList (ps.map encMap))
        | .either ps => pure (encStr "either" ++ " " ++ encNat nraw ++ " " ++ encList (ps.map encMap))
        | .raises => pure "error"
    | [Tok.str "apply", nodes, edges, md, inters, cites, links, given, pos, llogs, logs0] => do
        let m ← molOf nodes edges md inters cites
        let ls ← (← links.list?).mapM linkOf
        applyOut m ls given pos llogs logs0
    | [Tok.str "tapply", nodes, edges, md, inters, cites, dlinks, given, pos, llogs, logs0] => do
        -- links given as the LINES of a force-field file (declared semantics): built by `buildLink`
        let m ← molOf nodes edges md inters cites
        let built ← (← dlinks.list?).mapM dlinkOf
        match built.mapM id with
        | none => pure (encStr "rejected" ++ " " ++ encList (built.map fun b => encBool b.isSome))
        | some ls => pure (encList (ls.map encLink) ++ " " ++ (← applyOut m ls given pos llogs logs0))
    | [Tok.str "effective", site, wide, ln] => do
        pure (encTAttrs (effectiveAttrs (← siteOf site) (← tattrsOf wide) (← tattrsOf ln)))
    | [Tok.str "effnew", name, keys, fmt] => do
        match effNew (← name.str?) (← ints? keys) (← fmt.optStr?) with
        | some _ => pure "ok"
        | none => pure "valueerror"
    | [Tok.str "effeq", a, b] => do
        pure (encBool (effEq (← paramOf a) (← paramOf b)))
    | [Tok.str "effcall", name, keys, fmt, mp, pos] => do
        let ptab ← posTableOf pos
        pure (encEVal (effCall (fun a => ptab.lookup a) (← mapOfTok mp) (← name.str?) (← ints? keys) (← fmt.optStr?)))
    | [Tok.str "table", nodes, edges, md, inters, cites, ops, types] => do
        let m ← molOf nodes edges md inters cites
        let (m', flags) ← runTableOps m (← ops.list?) []
        let tys ← strs? types
        pure (encList flags ++ " " ++
              encList (tys.map fun ty => encList [encStr ty, encList ((getInteraction m' ty).map fun i =>
                encList [encList (i.atoms.map encInt), encList (i.params.map encParam), encAttrs i.md])]) ++ " " ++
              encList (m'.cites.map encStr))
    | [Tok.str "pairwise", tbl] => do
        let es ← (← tbl.list?).mapM fun e => do
          match ← e.list? with
          | [o, r] => pure (← orderOf o, ← r.int?)
          | _ => none
        let v := match pairwiseVerdict es with
          | .yes => "yes" | .no => "no" | .raises => "raises" | .either => "either"
        let sq := match pairwiseSeq es with
          | some b => encBool b | none => "valueerror"
        pure (v ++ " " ++ sq)
    | _ => none
  ((), r.getD "bad-op")

def main : IO Unit := runDriver handle ()
