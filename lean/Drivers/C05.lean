import VermouthModel.C05
open Proto Iso C05

/-
Encoding (see harness/c05.py):
  Val    : `-` | int | xstr | [ 0 b ] (bool) | [ 1 s.. ] (list of str)
  TVal   : Val | [ 2 v.. ] (Choice) | [ 3 v ] (NotDefinedOrNot)
  Attrs  : [ [ key val ].. ]
  Order  : int | xstr | [ 0 b ] | `-`
  Param  : xstr | [ name [keys] fmt ]
  Mol    : nodes edges md inters cites      node = [ key attrs [ [name-part..].. ] ]
  Link   : [ nodes edges molmeta nonEdges patterns removed inters cites ]
-/

def valOf : Tok → Option Val
  | Tok.none => some Val.none
  | Tok.int i => some (Val.int i)
  | Tok.str s => some (Val.str s)
  | Tok.list (Tok.int 0 :: [Tok.int b]) => some (Val.bool (b != 0))
  | Tok.list (Tok.int 1 :: rest) => (rest.mapM Tok.str?).map Val.list
  | _ => none

def tvalOf : Tok → Option TVal
  | Tok.list (Tok.int 2 :: rest) => (rest.mapM valOf).map TVal.choice
  | Tok.list [Tok.int 3, v] => (valOf v).map TVal.notDef
  | t => (valOf t).map TVal.plain

def kvOf (f : Tok → Option α) (t : Tok) : Option (String × α) := do
  match ← t.list? with
  | [k, v] => pure (← k.str?, ← f v)
  | _ => none

def attrsOf (t : Tok) : Option Attrs := do (← t.list?).mapM (kvOf valOf)
def tattrsOf (t : Tok) : Option TAttrs := do (← t.list?).mapM (kvOf tvalOf)

def orderOf : Tok → Option Order
  | Tok.int i => some (Order.num i)
  | Tok.str s => some (Order.str s.toList)
  | Tok.list [Tok.int 0, Tok.int b] => some (Order.bool (b != 0))
  | Tok.none => some Order.bad
  | _ => none

def paramOf : Tok → Option Param
  | Tok.str s => some (Param.lit s)
  | Tok.list [n, ks, f] => do pure (Param.eff (← n.str?) (← ints? ks) (← f.optStr?))
  | _ => none

def pairOf (t : Tok) : Option (Int × Int) := do
  match ← t.list? with
  | [u, v] => pure (← u.int?, ← v.int?)
  | _ => none

def interOf (t : Tok) : Option (String × Inter) := do
  match ← t.list? with
  | [ty, atoms, params, md] =>
    pure (← ty.str?, { atoms := ← ints? atoms, params := ← (← params.list?).mapM paramOf, md := ← attrsOf md })
  | _ => none

def mnodeOf (t : Tok) : Option MNode := do
  match ← t.list? with
  | [k, a, mods] => pure { key := ← k.int?, attrs := ← attrsOf a, mods := ← (← mods.list?).mapM strs? }
  | _ => none

def molOf (nodes edges md inters cites : Tok) : Option Mol := do
  pure { nodes := ← (← nodes.list?).mapM mnodeOf, edges := ← (← edges.list?).mapM pairOf,
         md := ← attrsOf md, inters := ← (← inters.list?).mapM interOf, cites := ← strs? cites }

def lnodeOf (t : Tok) : Option LNode := do
  match ← t.list? with
  | [k, a, r] =>
    let rep ← (match r with
      | Tok.none => some Option.none
      | r => (attrsOf r).map some)
    pure { key := ← k.int?, attrs := ← tattrsOf a, replace := rep }
  | _ => none

def keyedOf (t : Tok) : Option (Int × TAttrs) := do
  match ← t.list? with
  | [k, a] => pure (← k.int?, ← tattrsOf a)
  | _ => none

def delOf (t : Tok) : Option (String × LDel) := do
  match ← t.list? with
  | [ty, atoms, params, aa, md] =>
    let aas ← (match aa with
      | Tok.none => some Option.none
      | aa => do pure (some (← (← aa.list?).mapM tattrsOf)))
    pure (← ty.str?, { atoms := ← ints? atoms, params := ← (← params.list?).mapM paramOf,
                        atomAttrs := aas, md := ← tattrsOf md })
  | _ => none

def linkOf (t : Tok) : Option Link := do
  match ← t.list? with
  | [nodes, edges, mm, nes, pats, rem, ints, cites] =>
    pure { nodes := ← (← nodes.list?).mapM lnodeOf, edges := ← (← edges.list?).mapM pairOf,
           molmeta := ← tattrsOf mm, nonEdges := ← (← nes.list?).mapM keyedOf,
           patterns := ← (← pats.list?).mapM (fun p => do (← p.list?).mapM keyedOf),
           removed := ← (← rem.list?).mapM delOf, inters := ← (← ints.list?).mapM interOf,
           cites := ← strs? cites }
  | _ => none

def mapOfTok (t : Tok) : Option Map := do (← t.list?).mapM pairOf

/- encoders -/
def encVal : Val → String
  | .none => "-"
  | .int i => encInt i
  | .bool b => encList ["0", encBool b]
  | .str s => encStr s
  | .list l => encList ("1" :: l.map encStr)

def encAttrs (a : Attrs) : String := encList (a.map fun kv => encList [encStr kv.1, encVal kv.2])

def encParam : Param → String
  | .lit s => encStr s
  | .eff n ks f => encList [encStr n, encList (ks.map encInt), encOptStr f]

def encMap (m : Map) : String := encList (m.map fun p => encList [encInt p.1, encInt p.2])

def encMol (m : Mol) : String :=
  encList (m.nodes.map fun n => encList [encInt n.key, encAttrs n.attrs]) ++ " " ++
  encList (m.edges.map fun e => encList [encInt e.1, encInt e.2]) ++ " " ++
  encList (m.inters.map fun e => encList [encStr e.1, encList (e.2.atoms.map encInt),
                                           encList (e.2.params.map encParam), encAttrs e.2.md]) ++ " " ++
  encList (m.cites.map encStr)

def handle (_ : Unit) (toks : List Tok) : Unit × String :=
  let r : Option String :=
    match toks with
    | [Tok.str "order", o1, r1, o2, r2] => do
        match matchOrder (← orderOf o1) (← r1.int?) (← orderOf o2) (← r2.int?) with
        | some b => pure (encBool b)
        | none => pure "valueerror"
    | [Tok.str "interp", o] => do
        match interpretOrder (← orderOf o) with
        | some (t, v) => pure ((match t with | .number => "number" | .angle => "angle" | .star => "star") ++ " " ++ encInt v)
        | none => pure "valueerror"
    | [Tok.str "atoms", node, ta] => do
        pure (encBool (atomsMatch (← mnodeOf node) (← tattrsOf ta)))
    | [Tok.str "match", nodes, edges, md, link] => do
        let m ← molOf nodes edges md (Tok.list []) (Tok.list [])
        let l ← linkOf link
        let nraw := if attributesMatch m.md l.molmeta [] then (rawMatches m l).length else 0
        match matchLinkE m l with
        | some ps => pure (encNat nraw ++ " " ++ encList (ps.map encMap))
        | none => pure "error"
    | [Tok.str "apply", nodes, edges, md, inters, cites, links, given] => do
        let m ← molOf nodes edges md inters cites
        let ls ← (← links.list?).mapM linkOf
        let gs ← (← given.list?).mapM (fun g => do (← g.list?).mapM mapOfTok)
        match applyLinksE m ls gs with
        | some r => pure (encMol r)
        | none => pure "error"
    | _ => none
  ((), r.getD "bad-op")

def main : IO Unit := runDriver handle ()
