import VermouthModel.C11
open Proto C11

def tokOf (s : String) : C11.Tok := s.toList.map Char.toNat
def strOf (t : C11.Tok) : String := String.ofList (t.map Char.ofNat)
def encTok (t : C11.Tok) : String := encStr (strOf t)

def atomOf (t : Proto.Tok) : Option Atom := do
  match ← t.list? with
  | [k, r, n, fs] =>
      pure { key := ← k.int?, resid := ← r.int?, name := tokOf (← n.str?), fields := (← strs? fs).map tokOf }
  | _ => none

def interOf (t : Proto.Tok) : Option Inter := do
  match ← t.list? with
  | [s, ks, ps] => pure { sect := tokOf (← s.str?), atoms := ← ints? ks, params := (← strs? ps).map tokOf }
  | _ => none

def v3Of (t : Proto.Tok) : Option V3 := do
  match ← ints? t with
  | [x, y, z] => pure (x, y, z)
  | _ => none

def encV3 (p : V3) : String := encList [encInt p.1, encInt p.2.1, encInt p.2.2]

def encIdent (i : Ident) : String := encList [encInt i.1, encTok i.2]

def encARec (r : ARec) : String := encList [encInt r.1.1, encTok r.1.2, encList (r.2.map encTok)]

def encIRec (r : IRec) : String :=
  encList [encTok r.1, encList (r.2.1.map fun o => encList (o.map encIdent)), encList (r.2.2.map encTok)]

def encCanon (c : Canon) : String := encList [encList (c.atoms.map encARec), encList (c.inters.map encIRec)]

def handle (_ : Unit) (toks : List Proto.Tok) : Unit × String :=
  let r : Option String :=
    match toks with
    | [Proto.Tok.str "canon", syms, atoms, inters] => do
        let ss := (← strs? syms).map tokOf
        let as ← (← atoms.list?).mapM atomOf
        let is ← (← inters.list?).mapM interOf
        pure (encCanon (canonTop (fun s => ss.contains s) { atoms := as, inters := is }))
    | [Proto.Tok.str "move", r1, r2, r3, t, pts] => do
        let A : Mat3 := { r1 := ← v3Of r1, r2 := ← v3Of r2, r3 := ← v3Of r3 }
        let tv ← v3Of t
        let ps ← (← pts.list?).mapM v3Of
        pure (encBool (decide A.IsOrtho) ++ " " ++ encInt A.det ++ " " ++ encList (ps.map fun p => encV3 (move A tv p)))
    | [Proto.Tok.str "rot90", n] => do
        let i ← n.nat?
        let A ← rotations90[i % rotations90.length]?
        pure (encList [encV3 A.r1, encV3 A.r2, encV3 A.r3])
    | [Proto.Tok.str "sqd", p, q] => do
        pure (encInt (sqdist (← v3Of p) (← v3Of q)))
    | _ => none
  ((), r.getD "bad-op")

def main : IO Unit := runDriver handle ()
