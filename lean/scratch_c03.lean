#check @List.mergeSort_cons
#check @List.map_mergeSort
#check @List.mergeSort_of_pairwise
#check @List.pairwise_mergeSort
#check @List.mergeSort_perm
