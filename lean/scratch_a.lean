example : DecidableEq (Option (List (Int × List Nat) × List (String × List Int × String) × Nat × List Int)) := inferInstance
example : DecidableEq (List (String × List Int × String)) := inferInstance
example : DecidableEq (List (Int × List Nat) × List (String × List Int × String) × Nat × List Int) := inferInstance
