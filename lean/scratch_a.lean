theorem t1 (a b : String) (h : "_old_" ++ a = "_old_" ++ b) : a = b := by
  have := congrArg String.toList h
  simp only [String.toList_append] at this
  exact String.toList_inj.1 (List.append_cancel_left this)
theorem t2 (a : String) : "_old_" ++ a ≠ a := by
  intro h
  have := congrArg String.length h
  simp [String.length_append] at this
